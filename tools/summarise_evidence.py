#!/usr/bin/env python3
"""Print the measured numbers of the evidence files (used to refresh DESIGN.md section 6)."""
import json, sys, os
V = os.path.dirname(os.path.dirname(os.path.abspath(__file__)))
for p in ["C03", "C11", "C12", "C14", "C15", "C17", "C18"]:
    f = os.path.join(V, "evidence", p + ".json")
    if not os.path.exists(f):
        continue
    d = json.load(open(f)); c = d["coverage"]
    print(f"{p}: tier={d['tier']} seed={d['seed']} level={d['level']} wall={d['wall_s']}s evaluations={c['evaluations']} "
          f"runs={c.get('simulated_runs')} ops={c.get('operations_executed')} distinct_nontrivial={c['distinct_nontrivial']} "
          f"builds={len(c.get('builds', {}))} violations={d.get('violations')} stuck={c.get('probes_stuck_at_zero')} "
          f"classes={c.get('distinct_engine_state_classes_baseline_build')} bytes={c.get('simulated_bytes')}")
