#!/usr/bin/env python3
"""Run the quick checks against a patched *scratch worktree* of /repo, without
touching /repo: a throw-away copy of the machinery (check, sim, known-findings)
whose simulator crate depends on the worktree instead of /repo/ffuzzy.

usage: isolated_eval.py <patch.diff> [Cnn ...]        (default: all seven claimed properties)

Used for the behaviour-preserving rewrites (DESIGN.md 10.4) and for trying
seeded changes while /repo is busy.  The registered checks and every
detection.json under /verif/seeded come from `./check seeded`, which applies
the patch to /repo itself.
"""
import os, shutil, subprocess, sys, tempfile

VERIF = os.path.dirname(os.path.dirname(os.path.abspath(__file__)))


def main():
    patch = os.path.abspath(sys.argv[1])
    props = sys.argv[2:] or ["C03", "C11", "C12", "C14", "C15", "C17", "C18"]
    base = tempfile.mkdtemp(prefix="ffz-eval-")
    wt = os.path.join(base, "wt")
    rc = 0
    try:
        subprocess.run(["git", "-C", "/repo", "worktree", "add", "-q", "--detach", wt, "HEAD"], check=True)
        subprocess.run(["git", "-C", wt, "apply", patch], check=True)
        mach = os.path.join(base, "verif")
        os.makedirs(mach)
        shutil.copy(os.path.join(VERIF, "check"), mach)
        shutil.copy(os.path.join(VERIF, "known-findings.txt"), mach)
        shutil.copytree(os.path.join(VERIF, "sim"), os.path.join(mach, "sim"), ignore=shutil.ignore_patterns("target"))
        cargo = os.path.join(mach, "sim", "Cargo.toml")
        s = open(cargo).read().replace('path = "/repo/ffuzzy"', f'path = "{wt}/ffuzzy"')
        open(cargo, "w").write(s)
        for p in props:
            q = subprocess.run([os.path.join(mach, "check"), p, "quick"], stdout=subprocess.PIPE, stderr=subprocess.PIPE, text=True)
            viol = [l for l in q.stdout.splitlines() if l.startswith("VIOLATION")]
            detail = [l for l in q.stderr.splitlines() if l.startswith(f"[{p}] C") or "HARNESS" in l][:2]
            print(f"[isolated] {os.path.basename(os.path.dirname(patch))}: {p} quick -> exit {q.returncode}, {len(viol)} VIOLATION line(s) {[d[:300] for d in detail]}", flush=True)
            if q.returncode == 2:
                rc = 2
    finally:
        subprocess.run(["git", "-C", "/repo", "worktree", "remove", "--force", wt])
        shutil.rmtree(base, ignore_errors=True)
    return rc


if __name__ == "__main__":
    sys.exit(main())
