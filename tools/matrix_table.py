#!/usr/bin/env python3
"""Print the detection matrix (markdown) from seeded/*/detection.json.

Cells: number of VIOLATION lines of that property's quick check with the
seeded change applied; '·' = exit 0 and silent; 'H' = harness error (exit 2);
bold = the property the change was written against."""
import json, os, re, sys

VERIF = os.path.dirname(os.path.dirname(os.path.abspath(__file__)))
PROPS = ["C03", "C11", "C12", "C14", "C15", "C17", "C18"]


def key(name):
    m = re.match(r"(C\d+)-(\d?)([a-z])", name)
    return (m.group(1), int(m.group(2) or 1), m.group(3))


def main():
    sd = os.path.join(VERIF, "seeded")
    names = sorted((d for d in os.listdir(sd) if os.path.isdir(os.path.join(sd, d))), key=key)
    print("| seeded change | " + " | ".join(PROPS) + " | machinery |")
    print("|---|" + "---|" * (len(PROPS) + 1))
    own = 0
    commits = set()
    for n in names:
        p = os.path.join(sd, n, "detection.json")
        if not os.path.exists(p):
            print(f"| {n} | (not evaluated) |")
            continue
        res = json.load(open(p))["results"]
        cells = []
        cm = set()
        for q in PROPS:
            r = res.get(q)
            if r is None:
                cells.append("?")
                continue
            cm.add(r.get("machinery_commit", "?"))
            c = "H" if r["exit"] == 2 else ("·" if r["exit"] == 0 and r["violations"] == 0 else str(r["violations"]))
            if q == n.split("-")[0]:
                c = f"**{c}**"
                if r["exit"] == 1:
                    own += 1
            cells.append(c)
        commits |= cm
        print(f"| {n} | " + " | ".join(cells) + " | " + ",".join(sorted(cm)) + " |")
    print(f"\n{own} of {len(names)} reported by their own property's quick check; machinery commits: {sorted(commits)}", file=sys.stderr)


if __name__ == "__main__":
    main()
