#!/usr/bin/env python3
"""Confirm a seeded breaking change independently, in a scratch worktree.

usage: confirm_seeded.py <worktree> <src dir with patch.diff demo.rs notes.md> <dest /verif/seeded/<id>> <property> [demo cargo args...]

Steps (all in the scratch worktree, never in /repo):
  1. worktree must be clean; apply patch.diff
  2. the pinned suite (cargo test --workspace --no-fail-fast --offline) must pass with the change
  3. the demonstration (ffuzzy/tests/<name>.rs) must FAIL with the change
  4. revert the change; the demonstration must PASS without it
Writes patch.diff, demo.rs, notes.md (the author's) and meta.json into the destination.

With DEMO_MODE=example in the environment the demonstration is a program
(ffuzzy/examples/<name>.rs) that must exit 1 printing "PROPERTY BROKEN" with
the change and exit 0 without it (round 4 of the seeded changes).
"""
import json, os, re, shutil, subprocess, sys, time


def sh(cmd, cwd, env=None, timeout=3600):
    p = subprocess.run(cmd, cwd=cwd, env=env, shell=True, executable="/bin/bash", stdout=subprocess.PIPE, stderr=subprocess.STDOUT, text=True, timeout=timeout)
    return p.returncode, p.stdout


def main():
    wt, src, dst, prop = sys.argv[1:5]
    demo_args = " ".join(sys.argv[5:])
    env = dict(os.environ)
    env["CARGO_TARGET_DIR"] = os.path.join(wt, "target")
    env["CARGO_NET_OFFLINE"] = "true"
    name = "seeded_demo"
    example = os.environ.get("DEMO_MODE") == "example"
    demo_dst = os.path.join(wt, "ffuzzy", "examples" if example else "tests", name + ".rs")
    rc, out = sh("git status --porcelain", wt)
    if out.strip():
        sh("git checkout -- . && git clean -fdq ffuzzy/tests", wt)
    meta = {"property": prop, "source": src, "confirmed_in": wt, "at": time.strftime("%Y-%m-%d %H:%M:%S"), "steps": []}
    ok = True
    rc, out = sh(f"git apply --check {src}/patch.diff && git apply {src}/patch.diff", wt)
    meta["steps"].append({"step": "git apply patch.diff", "rc": rc})
    if rc != 0:
        print(out)
        ok = False
    if ok:
        rc, out = sh("cargo test --workspace --no-fail-fast --offline 2>&1 | grep -E '^test result|FAILED|^error' ", wt, env)
        passed = sum(int(m) for m in re.findall(r"(\d+) passed", out))
        failed = sum(int(m) for m in re.findall(r"(\d+) failed", out))
        suite_ok = failed == 0 and passed >= 198 and "error" not in out
        meta["steps"].append({"step": "pinned suite with the change (cargo test --workspace --no-fail-fast --offline)", "passed": passed, "failed": failed, "ok": suite_ok})
        ok = ok and suite_ok
        os.makedirs(os.path.dirname(demo_dst), exist_ok=True)
        shutil.copy(os.path.join(src, "demo.rs"), demo_dst)
        if example:
            rc, out = sh(f"cargo run --offline -q -p ffuzzy --example {name} {demo_args} 2>&1 | tail -40; exit ${{PIPESTATUS[0]}}", wt, env)
            m = [["exit", str(rc)]]
            demo_fails = rc != 0 and "PROPERTY BROKEN" in out
            meta["steps"].append({"step": f"demo with the change (cargo run --offline -p ffuzzy --example {name} {demo_args})", "result": m, "fails_as_required": demo_fails, "tail": out[-600:]})
        else:
            rc, out = sh(f"cargo test --offline -p ffuzzy --test {name} {demo_args} 2>&1 | tail -40", wt, env)
            m = re.findall(r"test result: (\w+)\. (\d+) passed; (\d+) failed", out)
            demo_fails = bool(m) and any(int(x[2]) > 0 for x in m) or ("panicked" in out and "test result: FAILED" in out) or ("SIGSEGV" in out or "signal" in out)
            meta["steps"].append({"step": f"demo with the change (cargo test --offline -p ffuzzy --test {name} {demo_args})", "result": m, "fails_as_required": demo_fails, "tail": out[-600:]})
        ok = ok and demo_fails
    sh("git checkout -- .", wt)
    if os.path.exists(demo_dst):
        if example:
            rc, out = sh(f"cargo run --offline -q -p ffuzzy --example {name} {demo_args} 2>&1 | tail -15; exit ${{PIPESTATUS[0]}}", wt, env)
            m = [["exit", str(rc)]]
            demo_passes = rc == 0 and "PROPERTY BROKEN" not in out
        else:
            rc, out = sh(f"cargo test --offline -p ffuzzy --test {name} {demo_args} 2>&1 | tail -15", wt, env)
            m = re.findall(r"test result: (\w+)\. (\d+) passed; (\d+) failed", out)
            demo_passes = bool(m) and all(int(x[2]) == 0 for x in m) and all(x[0] == "ok" for x in m)
        meta["steps"].append({"step": "demo without the change", "result": m, "passes_as_required": demo_passes})
        ok = ok and demo_passes
        os.remove(demo_dst)
        try:
            os.rmdir(os.path.dirname(demo_dst))
        except OSError:
            pass
    meta["confirmed"] = ok
    meta["demo_cargo_args"] = demo_args
    os.makedirs(dst, exist_ok=True)
    for f in ("patch.diff", "demo.rs", "notes.md"):
        if os.path.exists(os.path.join(src, f)):
            shutil.copy(os.path.join(src, f), os.path.join(dst, f))
    notes = open(os.path.join(src, "notes.md")).read() if os.path.exists(os.path.join(src, "notes.md")) else ""
    meta["needs_to_manifest"] = notes[:1500]
    with open(os.path.join(dst, "meta.json"), "w") as f:
        json.dump(meta, f, indent=1)
    print(json.dumps({"confirmed": ok, "steps": [{k: v for k, v in s.items() if k != "tail"} for s in meta["steps"]]}, indent=1))
    return 0 if ok else 1


if __name__ == "__main__":
    sys.exit(main())
