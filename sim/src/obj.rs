//! S-OBJ: histories over a pool of long-lived hash objects of all six types,
//! overwritten in place (C11: validity; C15: conversions).

use crate::core::{abr, guarded, Ctx, Outcome};
use crate::json::{hex, unhex, J};
use crate::rng::Rng;
use ssdeep::constraints::{BlockHashSize, BlockHashSizes, ConstrainedBlockHashSize, ConstrainedBlockHashSizes};
use ssdeep::{
    DualFuzzyHash, FuzzyHash, FuzzyHashData, FuzzyHashOperationError, Generator, LongDualFuzzyHash,
    LongFuzzyHash, LongRawFuzzyHash, RawFuzzyHash,
};
use std::collections::BTreeMap;

pub const NSLOTS: usize = 12;
pub const T_R: usize = 0;
pub const T_LR: usize = 1;
pub const T_N: usize = 2;
pub const T_LN: usize = 3;
pub const T_D: usize = 4;
pub const T_LD: usize = 5;
pub const TYPE_NAMES: [&str; 6] = ["Raw", "LongRaw", "Fuzzy", "LongFuzzy", "Dual", "LongDual"];

pub fn slot_type(slot: usize) -> usize {
    slot % 6
}
fn cap2(t: usize) -> usize {
    if t % 2 == 1 {
        64
    } else {
        32
    }
}
fn is_norm_type(t: usize) -> bool {
    t == T_N || t == T_LN
}
fn is_dual_type(t: usize) -> bool {
    t >= T_D
}

#[derive(Clone, Copy)]
pub enum H {
    R(RawFuzzyHash),
    LR(LongRawFuzzyHash),
    N(FuzzyHash),
    LN(LongFuzzyHash),
    D(DualFuzzyHash),
    LD(LongDualFuzzyHash),
}

impl H {
    pub fn new_of(t: usize) -> H {
        match t {
            T_R => H::R(RawFuzzyHash::new()),
            T_LR => H::LR(LongRawFuzzyHash::new()),
            T_N => H::N(FuzzyHash::new()),
            T_LN => H::LN(LongFuzzyHash::new()),
            T_D => H::D(DualFuzzyHash::new()),
            _ => H::LD(LongDualFuzzyHash::new()),
        }
    }
    pub fn default_of(t: usize) -> H {
        match t {
            T_R => H::R(Default::default()),
            T_LR => H::LR(Default::default()),
            T_N => H::N(Default::default()),
            T_LN => H::LN(Default::default()),
            T_D => H::D(Default::default()),
            _ => H::LD(Default::default()),
        }
    }
    pub fn ty(&self) -> usize {
        match self {
            H::R(_) => T_R,
            H::LR(_) => T_LR,
            H::N(_) => T_N,
            H::LN(_) => T_LN,
            H::D(_) => T_D,
            H::LD(_) => T_LD,
        }
    }
    pub fn is_valid(&self) -> bool {
        match self {
            H::R(h) => h.is_valid(),
            H::LR(h) => h.is_valid(),
            H::N(h) => h.is_valid(),
            H::LN(h) => h.is_valid(),
            H::D(h) => h.is_valid(),
            H::LD(h) => h.is_valid(),
        }
    }
    pub fn full_eq(&self, o: &H) -> bool {
        match (self, o) {
            (H::R(a), H::R(b)) => a.full_eq(b),
            (H::LR(a), H::LR(b)) => a.full_eq(b),
            (H::N(a), H::N(b)) => a.full_eq(b),
            (H::LN(a), H::LN(b)) => a.full_eq(b),
            // dual types have no full_eq(); their == is a raw memory compare of all fields
            (H::D(a), H::D(b)) => a == b && a.as_normalized().full_eq(b.as_normalized()),
            (H::LD(a), H::LD(b)) => a == b && a.as_normalized().full_eq(b.as_normalized()),
            _ => false,
        }
    }
    pub fn debug(&self) -> String {
        match self {
            H::R(h) => format!("{:?}", h),
            H::LR(h) => format!("{:?}", h),
            H::N(h) => format!("{:?}", h),
            H::LN(h) => format!("{:?}", h),
            H::D(h) => format!("{:?}", h),
            H::LD(h) => format!("{:?}", h),
        }
    }
    /// Text (only call on objects that passed validity).
    pub fn text(&self) -> String {
        match self {
            H::R(h) => format!("{}", h),
            H::LR(h) => format!("{}", h),
            H::N(h) => format!("{}", h),
            H::LN(h) => format!("{}", h),
            H::D(h) => format!("{}", h),
            H::LD(h) => format!("{}", h),
        }
    }
    /// The text plus a digest of every other way the library renders the
    /// object as a string: `Display` with width / fill / precision flags, the
    /// inherent `to_string()`, `store_into_bytes()` into exact, larger and too
    /// small buffers, `len_in_str()`, the dual types' `to_raw_form_string()` /
    /// `to_normalized_string()`.  Used in portable event lines, so that a
    /// rendering that differs in one build configuration only is seen by C14
    /// (only call on objects that passed validity).
    pub fn forms(&self) -> String {
        fn flags<T: core::fmt::Display>(h: &T) -> String {
            format!("{:>90}|{:<7}|{:.12}|{:^75.20}|{:*<3}|{:#}", h, h, h, h, h, h)
        }
        let mut all = String::new();
        macro_rules! plain_forms {
            ($h:expr) => {{
                let h = $h;
                all.push_str(&flags(h));
                let n = h.len_in_str();
                all.push_str(&format!("|len={}", n));
                let mut exact = vec![0x2au8; n];
                let r = h.store_into_bytes(&mut exact);
                all.push_str(&format!("|exact={:?}:{}", r.ok(), String::from_utf8_lossy(&exact)));
                let mut big = vec![0x2au8; n + 5];
                let r = h.store_into_bytes(&mut big);
                all.push_str(&format!("|big={:?}:{}", r.ok(), String::from_utf8_lossy(&big)));
                if n > 0 {
                    let mut small = vec![0x2au8; n - 1];
                    let r = h.store_into_bytes(&mut small);
                    all.push_str(&format!("|small={}:{}", r.is_err(), String::from_utf8_lossy(&small)));
                }
            }};
        }
        macro_rules! dual_forms {
            ($h:expr) => {{
                let h = $h;
                all.push_str(&flags(h));
            }};
        }
        match self {
            H::R(h) => plain_forms!(h),
            H::LR(h) => plain_forms!(h),
            H::N(h) => plain_forms!(h),
            H::LN(h) => plain_forms!(h),
            H::D(h) => dual_forms!(h),
            H::LD(h) => dual_forms!(h),
        }
        format!("{} ~{:08x}", self.text(), crate::core::fnv64_of(all.as_bytes()) as u32)
    }
}

/// The renderings that need an allocator (`to_string()` and the dual types'
/// `to_raw_form_string()` / `to_normalized_string()`): a std-only line.
#[cfg(feature = "std-easy")]
fn log_alloc_forms(cx: &mut Ctx, slot: usize, h: &H) {
    let s = match h {
        H::R(h) => h.to_string(),
        H::LR(h) => h.to_string(),
        H::N(h) => h.to_string(),
        H::LN(h) => h.to_string(),
        H::D(h) => format!("{}|{}", h.to_raw_form_string(), h.to_normalized_string()),
        H::LD(h) => format!("{}|{}", h.to_raw_form_string(), h.to_normalized_string()),
    };
    cx.ev_std(format_args!("strings s{} {}", slot, s));
}
#[cfg(not(feature = "std-easy"))]
fn log_alloc_forms(_cx: &mut Ctx, _slot: usize, _h: &H) {}

/// What the public, invariant-free accessors say about a plain object.
#[derive(Clone, Debug, PartialEq)]
pub struct View {
    pub log: u8,
    pub len1: usize,
    pub len2: usize,
    pub a1: Vec<u8>,
    pub a2: Vec<u8>,
    pub norm: bool,
}

fn view_of<const S1: usize, const S2: usize, const NORM: bool>(h: &FuzzyHashData<S1, S2, NORM>) -> View
where
    BlockHashSize<S1>: ConstrainedBlockHashSize,
    BlockHashSize<S2>: ConstrainedBlockHashSize,
    BlockHashSizes<S1, S2>: ConstrainedBlockHashSizes,
{
    View {
        log: h.log_block_size(),
        len1: h.block_hash_1_len(),
        len2: h.block_hash_2_len(),
        a1: h.block_hash_1_as_array().to_vec(),
        a2: h.block_hash_2_as_array().to_vec(),
        norm: NORM,
    }
}

fn has_long_run(b: &[u8]) -> bool {
    let mut run = 1;
    for i in 1..b.len() {
        if b[i] == b[i - 1] {
            run += 1;
            if run > 3 {
                return true;
            }
        } else {
            run = 1;
        }
    }
    false
}

/// The independent validity predicate (a literal transcription of C11's
/// parenthesis), computed from accessors only.
fn view_problem(v: &View) -> Option<String> {
    if v.log >= 31 {
        return Some(format!("log block size {} >= 31", v.log));
    }
    if v.len1 > v.a1.len() {
        return Some(format!("block hash 1 length {} exceeds capacity {}", v.len1, v.a1.len()));
    }
    if v.len2 > v.a2.len() {
        return Some(format!("block hash 2 length {} exceeds capacity {}", v.len2, v.a2.len()));
    }
    for (k, (a, l)) in [(&v.a1, v.len1), (&v.a2, v.len2)].iter().enumerate() {
        if let Some(p) = a[..*l].iter().position(|&x| x >= 64) {
            return Some(format!("block hash {} symbol {} at {} is >= 64", k + 1, a[p], p));
        }
        if let Some(p) = a[*l..].iter().position(|&x| x != 0) {
            return Some(format!("block hash {} unused tail byte at {} is {} (not zero)", k + 1, l + p, a[l + p]));
        }
        if v.norm && has_long_run(&a[..*l]) {
            return Some(format!("block hash {} of a normalized type has a run longer than 3", k + 1));
        }
    }
    None
}

impl H {
    /// The plain view (for dual types: of the normalized part).
    pub fn view(&self) -> View {
        match self {
            H::R(h) => view_of(h),
            H::LR(h) => view_of(h),
            H::N(h) => view_of(h),
            H::LN(h) => view_of(h),
            H::D(h) => view_of(h.as_normalized()),
            H::LD(h) => view_of(h.as_normalized()),
        }
    }
}

pub type Content = (u8, Vec<u8>, Vec<u8>);

fn content_of(v: &View) -> Content {
    (v.log, v.a1[..v.len1.min(v.a1.len())].to_vec(), v.a2[..v.len2.min(v.a2.len())].to_vec())
}

/// Full validity judgement of an object: `is_valid()` plus the independent
/// predicate (and, for dual types, a successful and valid expansion).
fn problem_of(h: &H) -> Option<String> {
    let v = h.view();
    if let Some(p) = view_problem(&v) {
        return Some(p);
    }
    if !h.is_valid() {
        return Some("is_valid() returned false".to_string());
    }
    match h {
        H::D(d) => match guarded(|| d.to_raw_form()) {
            Err(m) => Some(format!("to_raw_form() of a dual hash that claims validity panicked: {}", m)),
            Ok(r) => view_problem(&view_of(&r)).map(|p| format!("expansion of dual hash is invalid: {}", p)).or_else(|| {
                if r.is_valid() {
                    None
                } else {
                    Some("expansion of dual hash fails is_valid()".to_string())
                }
            }),
        },
        H::LD(d) => match guarded(|| d.to_raw_form()) {
            Err(m) => Some(format!("to_raw_form() of a dual hash that claims validity panicked: {}", m)),
            Ok(r) => view_problem(&view_of(&r)).map(|p| format!("expansion of dual hash is invalid: {}", p)).or_else(|| {
                if r.is_valid() {
                    None
                } else {
                    Some("expansion of dual hash fails is_valid()".to_string())
                }
            }),
        },
        _ => None,
    }
}

// ---------------------------------------------------------------------------
// Operations

#[derive(Clone, Copy, Debug, PartialEq, Eq, PartialOrd, Ord)]
pub enum Edge {
    ToRawForm,
    IntoMutRawForm,
    FromNormToRaw,
    RawFromNormalized,
    Normalize,
    FromRawToNorm,
    NormFromRawForm,
    CloneNormalized,
    ToLongForm,
    IntoMutLongForm,
    FromShortToLong,
    LongFromShortForm,
    FromNormShortToLongRaw,
    TryIntoMutShort,
    TryFromLong,
    DualFromRawForm,
    DualInitFromRawForm,
    DualFromRaw,
    DualFromNormalized,
    DualFromNorm,
    DualToRawForm,
    DualIntoMutRawForm,
    DualToNormalized,
    DualAsNormalized,
    Copy,
}

pub const EDGES: [Edge; 25] = [
    Edge::ToRawForm,
    Edge::IntoMutRawForm,
    Edge::FromNormToRaw,
    Edge::RawFromNormalized,
    Edge::Normalize,
    Edge::FromRawToNorm,
    Edge::NormFromRawForm,
    Edge::CloneNormalized,
    Edge::ToLongForm,
    Edge::IntoMutLongForm,
    Edge::FromShortToLong,
    Edge::LongFromShortForm,
    Edge::FromNormShortToLongRaw,
    Edge::TryIntoMutShort,
    Edge::TryFromLong,
    Edge::DualFromRawForm,
    Edge::DualInitFromRawForm,
    Edge::DualFromRaw,
    Edge::DualFromNormalized,
    Edge::DualFromNorm,
    Edge::DualToRawForm,
    Edge::DualIntoMutRawForm,
    Edge::DualToNormalized,
    Edge::DualAsNormalized,
    Edge::Copy,
];

impl Edge {
    pub fn name(self) -> &'static str {
        match self {
            Edge::ToRawForm => "to_raw_form",
            Edge::IntoMutRawForm => "into_mut_raw_form",
            Edge::FromNormToRaw => "From<norm>for_raw",
            Edge::RawFromNormalized => "raw::from_normalized",
            Edge::Normalize => "normalize",
            Edge::FromRawToNorm => "From<raw>for_norm",
            Edge::NormFromRawForm => "norm::from_raw_form",
            Edge::CloneNormalized => "clone_normalized",
            Edge::ToLongForm => "to_long_form",
            Edge::IntoMutLongForm => "into_mut_long_form",
            Edge::FromShortToLong => "From<short>for_long",
            Edge::LongFromShortForm => "long::from_short_form",
            Edge::FromNormShortToLongRaw => "From<FuzzyHash>for_LongRawFuzzyHash",
            Edge::TryIntoMutShort => "try_into_mut_short",
            Edge::TryFromLong => "TryFrom<long>for_short",
            Edge::DualFromRawForm => "dual::from_raw_form",
            Edge::DualInitFromRawForm => "dual.init_from_raw_form",
            Edge::DualFromRaw => "From<raw>for_dual",
            Edge::DualFromNormalized => "dual::from_normalized",
            Edge::DualFromNorm => "From<norm>for_dual",
            Edge::DualToRawForm => "dual.to_raw_form",
            Edge::DualIntoMutRawForm => "dual.into_mut_raw_form",
            Edge::DualToNormalized => "dual.to_normalized",
            Edge::DualAsNormalized => "dual.as_normalized",
            Edge::Copy => "copy",
        }
    }
    pub fn from_name(s: &str) -> Result<Edge, String> {
        EDGES.iter().copied().find(|e| e.name() == s).ok_or_else(|| format!("bad edge {}", s))
    }
    /// Destination type for a source type (None if the edge does not exist there).
    pub fn dst_type(self, st: usize) -> Option<usize> {
        use Edge::*;
        match self {
            ToRawForm | IntoMutRawForm | FromNormToRaw | RawFromNormalized => match st {
                T_N => Some(T_R),
                T_LN => Some(T_LR),
                _ => None,
            },
            Normalize => match st {
                T_R | T_N => Some(T_N),
                T_LR | T_LN => Some(T_LN),
                _ => None,
            },
            FromRawToNorm | NormFromRawForm => match st {
                T_R => Some(T_N),
                T_LR => Some(T_LN),
                _ => None,
            },
            CloneNormalized => {
                if st < 4 {
                    Some(st)
                } else {
                    None
                }
            }
            ToLongForm | IntoMutLongForm | FromShortToLong | LongFromShortForm => match st {
                T_R => Some(T_LR),
                T_N => Some(T_LN),
                _ => None,
            },
            FromNormShortToLongRaw => {
                if st == T_N {
                    Some(T_LR)
                } else {
                    None
                }
            }
            TryIntoMutShort | TryFromLong => match st {
                T_LR => Some(T_R),
                T_LN => Some(T_N),
                _ => None,
            },
            DualFromRawForm | DualInitFromRawForm | DualFromRaw => match st {
                T_R => Some(T_D),
                T_LR => Some(T_LD),
                _ => None,
            },
            DualFromNormalized | DualFromNorm => match st {
                T_N => Some(T_D),
                T_LN => Some(T_LD),
                _ => None,
            },
            DualToRawForm | DualIntoMutRawForm => match st {
                T_D => Some(T_R),
                T_LD => Some(T_LR),
                _ => None,
            },
            DualToNormalized | DualAsNormalized => match st {
                T_D => Some(T_N),
                T_LD => Some(T_LN),
                _ => None,
            },
            Copy => Some(st),
        }
    }
    fn in_place(self) -> bool {
        matches!(
            self,
            Edge::IntoMutRawForm | Edge::IntoMutLongForm | Edge::TryIntoMutShort | Edge::DualInitFromRawForm | Edge::DualIntoMutRawForm
        )
    }
}

#[derive(Clone, Debug, PartialEq)]
pub enum Op {
    /// Finalise `Generator::new().update(bytes)` into a raw slot.
    Gen { dst: u8, bytes: Vec<u8>, variant: u8 },
    /// Parse text into the slot's type. via: 0 from_bytes, 1 from_bytes_with_last_index, 2 str::parse
    Parse { dst: u8, text: Vec<u8>, via: u8 },
    /// new() (0) or default() (1)
    New { dst: u8, via: u8 },
    /// Constructors from internals.  which: 0 new_from_internals(block_size),
    /// 1 new_from_internals_near_raw(log), 2 new_from_internals_raw(arrays),
    /// 3 init_from_internals_raw (in place).  `bs` is a block size (which=0)
    /// or a log block size.  For which >= 2, b1/b2 are the *full arrays*
    /// (resized to capacity) and len1/len2 the length bytes.
    Ctor { dst: u8, which: u8, bs: u32, b1: Vec<u8>, b2: Vec<u8>, len1: u8, len2: u8 },
    NormalizeInPlace { dst: u8 },
    Conv { src: u8, dst: u8, edge: Edge },
    /// Observers on a deliberately corrupted object (unchecked + release only).
    Corrupt { ty: u8, kind: u8 },
}

impl Op {
    pub fn to_json(&self) -> J {
        match self {
            Op::Gen { dst, bytes, variant } => J::obj(vec![
                ("op", J::s("generate")),
                ("dst", J::u(*dst as u64)),
                ("hex", J::Str(hex(bytes))),
                ("variant", J::u(*variant as u64)),
            ]),
            Op::Parse { dst, text, via } => J::obj(vec![
                ("op", J::s("parse")),
                ("dst", J::u(*dst as u64)),
                ("type", J::s(TYPE_NAMES[slot_type(*dst as usize)])),
                ("text_hex", J::Str(hex(text))),
                ("text", J::Str(String::from_utf8_lossy(text).to_string())),
                ("via", J::u(*via as u64)),
            ]),
            Op::New { dst, via } => J::obj(vec![("op", J::s("new")), ("dst", J::u(*dst as u64)), ("via", J::u(*via as u64))]),
            Op::Ctor { dst, which, bs, b1, b2, len1, len2 } => J::obj(vec![
                ("op", J::s("ctor")),
                ("dst", J::u(*dst as u64)),
                ("type", J::s(TYPE_NAMES[slot_type(*dst as usize)])),
                ("which", J::u(*which as u64)),
                ("bs", J::u(*bs as u64)),
                ("b1", J::Str(hex(b1))),
                ("b2", J::Str(hex(b2))),
                ("len1", J::u(*len1 as u64)),
                ("len2", J::u(*len2 as u64)),
            ]),
            Op::NormalizeInPlace { dst } => J::obj(vec![("op", J::s("normalize_in_place")), ("dst", J::u(*dst as u64))]),
            Op::Conv { src, dst, edge } => J::obj(vec![
                ("op", J::s("convert")),
                ("src", J::u(*src as u64)),
                ("dst", J::u(*dst as u64)),
                ("edge", J::s(edge.name())),
            ]),
            Op::Corrupt { ty, kind } => J::obj(vec![("op", J::s("corrupt")), ("ty", J::u(*ty as u64)), ("kind", J::u(*kind as u64))]),
        }
    }
    pub fn from_json(j: &J) -> Result<Op, String> {
        let slot = |k: &str| -> Result<u8, String> { Ok((j.gu(k)? as usize % NSLOTS) as u8) };
        Ok(match j.gs("op")? {
            "generate" => Op::Gen { dst: slot("dst")?, bytes: unhex(j.gs("hex")?)?, variant: j.gu("variant")? as u8 },
            "parse" => Op::Parse { dst: slot("dst")?, text: unhex(j.gs("text_hex")?)?, via: j.gu("via")? as u8 },
            "new" => Op::New { dst: slot("dst")?, via: j.gu("via")? as u8 },
            "ctor" => Op::Ctor {
                dst: slot("dst")?,
                which: j.gu("which")? as u8,
                bs: j.gu("bs")? as u32,
                b1: unhex(j.gs("b1")?)?,
                b2: unhex(j.gs("b2")?)?,
                len1: j.gu("len1")? as u8,
                len2: j.gu("len2")? as u8,
            },
            "normalize_in_place" => Op::NormalizeInPlace { dst: slot("dst")? },
            "convert" => Op::Conv { src: slot("src")?, dst: slot("dst")?, edge: Edge::from_name(j.gs("edge")?)? },
            "corrupt" => Op::Corrupt { ty: j.gu("ty")? as u8, kind: j.gu("kind")? as u8 },
            o => return Err(format!("bad obj op {}", o)),
        })
    }
    pub fn simplify(&self) -> Vec<Op> {
        let mut v = Vec::new();
        match self {
            Op::Gen { dst, bytes, variant } => {
                if bytes.len() > 1 {
                    v.push(Op::Gen { dst: *dst, bytes: bytes[..bytes.len() / 2].to_vec(), variant: *variant });
                }
                if *variant != 0 {
                    v.push(Op::Gen { dst: *dst, bytes: bytes.clone(), variant: 0 });
                }
            }
            Op::Parse { dst, text, via } => {
                if *via != 0 {
                    v.push(Op::Parse { dst: *dst, text: text.clone(), via: 0 });
                }
                // drop one character at a time from the middle of the longest run
                if text.len() > 4 {
                    for cut in [text.len() / 2, text.len() - 1, text.len() * 3 / 4] {
                        let mut t = text.clone();
                        t.remove(cut.min(t.len() - 1));
                        v.push(Op::Parse { dst: *dst, text: t, via: *via });
                    }
                    // cut the optional file name part
                    if let Some(p) = text.iter().position(|&c| c == b',') {
                        v.push(Op::Parse { dst: *dst, text: text[..p].to_vec(), via: *via });
                    }
                }
            }
            Op::Ctor { dst, which, bs, b1, b2, len1, len2 } if *which < 2 => {
                if !b1.is_empty() {
                    v.push(Op::Ctor { dst: *dst, which: *which, bs: *bs, b1: b1[..b1.len() - 1].to_vec(), b2: b2.clone(), len1: *len1, len2: *len2 });
                    v.push(Op::Ctor { dst: *dst, which: *which, bs: *bs, b1: Vec::new(), b2: b2.clone(), len1: *len1, len2: *len2 });
                }
                if !b2.is_empty() {
                    v.push(Op::Ctor { dst: *dst, which: *which, bs: *bs, b1: b1.clone(), b2: b2[..b2.len() - 1].to_vec(), len1: *len1, len2: *len2 });
                    v.push(Op::Ctor { dst: *dst, which: *which, bs: *bs, b1: b1.clone(), b2: Vec::new(), len1: *len1, len2: *len2 });
                }
            }
            _ => {}
        }
        v
    }
}

// ---------------------------------------------------------------------------
// Model

#[derive(Clone, Debug)]
struct Mdl {
    /// Content as the accessors report it (dual: the normalized part).
    c: Content,
    /// Dual only: expected raw expansion, when it is known from a conversion.
    raw: Option<(Vec<u8>, Vec<u8>)>,
}

fn runs(b: &[u8]) -> Vec<(u8, usize)> {
    let mut v: Vec<(u8, usize)> = Vec::new();
    for &x in b {
        match v.last_mut() {
            Some((s, n)) if *s == x => *n += 1,
            _ => v.push((x, 1)),
        }
    }
    v
}

/// `dst` is `src` with zero or more runs shortened (never removed, never
/// lengthened, nothing else changed) -- the weakest reading of "differs at
/// most by run-collapsing".
fn collapse_only(src: &[u8], dst: &[u8]) -> bool {
    let (a, b) = (runs(src), runs(dst));
    a.len() == b.len() && a.iter().zip(b.iter()).all(|(x, y)| x.0 == y.0 && y.1 >= 1 && y.1 <= x.1)
}

pub struct State {
    slots: Vec<H>,
    mdl: Vec<Mdl>,
    /// raw content -> normalized content produced by the implementation
    /// (every route must agree: the commutation statement of C15)
    norm_map: BTreeMap<Vec<u8>, Vec<u8>>,
    /// the next `settle` logs locally (see there)
    settle_local: bool,
}

fn mdl_of(h: &H) -> Mdl {
    Mdl { c: content_of(&h.view()), raw: None }
}

fn b64(b: &[u8]) -> String {
    const T: &[u8; 64] = b"ABCDEFGHIJKLMNOPQRSTUVWXYZabcdefghijklmnopqrstuvwxyz0123456789+/";
    b.iter().map(|&x| T[(x & 63) as usize] as char).collect()
}

fn show_content(c: &Content) -> String {
    let bs = if c.0 < 31 { (3u64 << c.0).to_string() } else { format!("log{}", c.0) };
    format!("{}:{}:{}", bs, b64(&c.1), b64(&c.2))
}

pub fn execute(ops: &[Op], verbose: bool) -> Outcome {
    let mut cx = Ctx::new(verbose);
    let mut st = State {
        slots: (0..NSLOTS).map(|i| H::new_of(slot_type(i))).collect(),
        mdl: Vec::new(),
        norm_map: BTreeMap::new(),
        settle_local: false,
    };
    st.mdl = st.slots.iter().map(mdl_of).collect();
    for (i, op) in ops.iter().enumerate() {
        cx.step = i;
        step(&mut cx, &mut st, op);
    }
    cx.step = ops.len();
    cx.finish()
}

/// After an operation wrote `slot`: validity (C11) and observers (C11);
/// an invalid object is reported and discarded.
fn settle(cx: &mut Ctx, st: &mut State, slot: usize, opname: &str) -> bool {
    let h = st.slots[slot];
    let t = slot_type(slot);
    let prob = match guarded(|| problem_of(&h)) {
        Ok(p) => p,
        Err(m) => {
            cx.fail("C11.observers_total", format!("{}:{}", opname, TYPE_NAMES[t]), format!("validity check panicked after {}: {}", opname, m));
            Some("validity check panicked".to_string())
        }
    };
    // observers must not panic on any object the run holds
    if let Err(m) = guarded(|| {
        let _ = h.debug();
        let _ = h.full_eq(&h);
    }) {
        cx.fail("C11.observers_total", format!("{}:{}", opname, TYPE_NAMES[t]), format!("Debug/full_eq panicked after {}: {}", opname, m));
    }
    if let Some(p) = prob {
        cx.fail(
            "C11.valid_after_op",
            format!("{}:{}", opname, TYPE_NAMES[t]),
            format!("{} produced an invalid {} object: {} [{}]", opname, TYPE_NAMES[t], p, abridge(&h.debug())),
        );
        // (local when the text parsed has an over-long raw field: a strict-parser
        // build legitimately never gets this far)
        cx.ev(!st.settle_local, format_args!("s{} INVALID after {}", slot, opname));
        // never use a corrupted object again
        st.slots[slot] = H::new_of(t);
        st.mdl[slot] = mdl_of(&st.slots[slot]);
        return false;
    }
    true
}

fn abridge(s: &str) -> String {
    if s.len() > 300 {
        format!("{}...", &s[..300])
    } else {
        s.to_string()
    }
}

fn dirty_probe(cx: &mut Ctx, before: &Content, after: &Content) {
    if before.1.len() > after.1.len() || before.2.len() > after.2.len() {
        cx.probe("obj.overwrite_longer_prev");
    } else if before.1.len() < after.1.len() || before.2.len() < after.2.len() {
        cx.probe("obj.overwrite_shorter_prev");
    } else {
        cx.probe("obj.overwrite_same_len");
    }
}

fn step(cx: &mut Ctx, st: &mut State, op: &Op) {
    match op {
        Op::New { dst, via } => {
            let d = *dst as usize;
            let t = slot_type(d);
            st.slots[d] = if *via == 0 { H::new_of(t) } else { H::default_of(t) };
            st.mdl[d] = mdl_of(&st.slots[d]);
            settle(cx, st, d, "new");
            cx.ev(true, format_args!("new s{} {}", d, TYPE_NAMES[t]));
        }
        Op::Gen { dst, bytes, variant } => gen_step(cx, st, *dst as usize, bytes, *variant),
        Op::Parse { dst, text, via } => parse_step(cx, st, *dst as usize, text, *via),
        Op::Ctor { dst, which, bs, b1, b2, len1, len2 } => ctor_step(cx, st, *dst as usize, *which, *bs, b1, b2, *len1, *len2),
        Op::NormalizeInPlace { dst } => norm_in_place_step(cx, st, *dst as usize),
        Op::Conv { src, dst, edge } => conv_step(cx, st, *src as usize, *dst as usize, *edge),
        Op::Corrupt { ty, kind } => corrupt_step(cx, *ty as usize % 4, *kind),
    }
}

fn gen_step(cx: &mut Ctx, st: &mut State, d: usize, bytes: &[u8], variant: u8) {
    let t = slot_type(d);
    if t != T_R && t != T_LR {
        cx.ev(true, format_args!("generate s{} skipped (not a raw slot)", d));
        return;
    }
    let r = guarded(|| {
        let mut g = Generator::new();
        g.update(bytes);
        if t == T_R {
            match variant % 3 {
                0 => g.finalize().map(H::R),
                1 => g.finalize_raw::<true, 64, 32>().map(H::R),
                _ => g.finalize_raw::<false, 64, 32>().map(H::R),
            }
        } else {
            match variant % 3 {
                0 => g.finalize_without_truncation().map(H::LR),
                1 => g.finalize_raw::<false, 64, 64>().map(H::LR),
                _ => g.finalize_raw::<true, 64, 64>().map(H::LR),
            }
        }
    });
    match r {
        Err(_) => {
            // a generator panic is C03's subject
            cx.probe("obj.generate_panic");
            cx.ev(true, format_args!("generate s{} -> PANIC", d));
        }
        Ok(Err(e)) => cx.ev(true, format_args!("generate s{} {} v{} -> Err({:?})", d, abr(bytes), variant % 3, e)),
        Ok(Ok(h)) => {
            let before = st.mdl[d].c.clone();
            st.slots[d] = h;
            if settle(cx, st, d, "generate") {
                st.mdl[d] = mdl_of(&h);
                dirty_probe(cx, &before, &st.mdl[d].c);
                cx.ev(true, format_args!("generate s{} {} v{} -> {}", d, abr(bytes), variant % 3, h.forms()));
                log_alloc_forms(cx, d as usize, &h);
            }
        }
    }
}

/// Raw base64 character counts of the two block hash fields of a text
/// (None if the text does not even have the three-field shape).
pub fn raw_field_lengths(text: &[u8]) -> Option<(usize, usize)> {
    let c1 = text.iter().position(|&c| c == b':')?;
    let rest = &text[c1 + 1..];
    // field 1: up to the next ':' or ',' (or the end of an incomplete text)
    let e1 = rest.iter().position(|&c| c == b':' || c == b',').unwrap_or(rest.len());
    let f2 = if rest.get(e1) == Some(&b':') {
        let rest2 = &rest[e1 + 1..];
        rest2.iter().position(|&c| c == b':' || c == b',').unwrap_or(rest2.len())
    } else {
        0
    };
    Some((e1, f2))
}

fn parse_step(cx: &mut Ctx, st: &mut State, d: usize, text: &[u8], via: u8) {
    let t = slot_type(d);
    macro_rules! parse_as {
        ($ty:ty, $wrap:expr) => {{
            match via % 3 {
                0 => <$ty>::from_bytes(text).map($wrap).map_err(|e| format!("{:?}", e)),
                1 => {
                    let mut idx = usize::MAX;
                    <$ty>::from_bytes_with_last_index(text, &mut idx).map($wrap).map_err(|e| format!("{:?}", e))
                }
                _ => match std::str::from_utf8(text) {
                    Ok(s) => s.parse::<$ty>().map($wrap).map_err(|e| format!("{:?}", e)),
                    Err(_) => <$ty>::from_bytes(text).map($wrap).map_err(|e| format!("{:?}", e)),
                },
            }
        }};
    }
    let r: Result<Result<H, String>, String> = guarded(|| match t {
        T_R => parse_as!(RawFuzzyHash, H::R),
        T_LR => parse_as!(LongRawFuzzyHash, H::LR),
        T_N => parse_as!(FuzzyHash, H::N),
        T_LN => parse_as!(LongFuzzyHash, H::LN),
        T_D => parse_as!(DualFuzzyHash, H::D),
        _ => parse_as!(LongDualFuzzyHash, H::LD),
    });
    // Texts whose raw field length exceeds the capacity are judged differently
    // by the default and the strict parser (for normalizing types): their
    // outcome is a *local* line and the value is never stored, so that the
    // histories stay aligned across build configurations (C14.strict_relation).
    let overlong = match raw_field_lengths(text) {
        Some((l1, l2)) => l1 > 64 || l2 > cap2(t),
        None => false,
    };
    let sigclass = if overlong { "overlong_raw" } else { "fits" };
    #[cfg(feature = "f-strict")]
    {
        // C14.strict_relation (c): under the strict parser the raw, normalizing
        // and dual types of one width accept exactly the same texts.
        let accepts = guarded(|| {
            if t % 2 == 0 {
                [RawFuzzyHash::from_bytes(text).is_ok(), FuzzyHash::from_bytes(text).is_ok(), DualFuzzyHash::from_bytes(text).is_ok()]
            } else {
                [LongRawFuzzyHash::from_bytes(text).is_ok(), LongFuzzyHash::from_bytes(text).is_ok(), LongDualFuzzyHash::from_bytes(text).is_ok()]
            }
        });
        cx.probe("c14.strict_sibling_check");
        match accepts {
            Ok(a) if a[0] == a[1] && a[1] == a[2] => {}
            Ok(a) => cx.fail(
                "C14.strict_relation",
                format!("siblings:{}", if t % 2 == 0 { "short" } else { "long" }),
                format!("strict parser: raw/normalized/dual accept = {:?} for {:?}", a, String::from_utf8_lossy(text)),
            ),
            Err(m) => cx.fail(
                "C14.strict_relation",
                "siblings:panic",
                format!("strict parser panicked on {:?}: {}", String::from_utf8_lossy(text), m),
            ),
        }
    }
    match r {
        Err(m) => {
            // A parser that panics produces no object: that is C04's statement
            // (parsing is total), not C11's; logged, counted, not reported here.
            let _ = (&m, sigclass);
            cx.probe("obj.parse_panic");
            cx.ev(!overlong, format_args!("parse s{} {} -> PANIC", d, abr(text)));
        }
        Ok(Err(e)) => {
            cx.probe("obj.parse_err");
            if overlong {
                cx.probe("obj.parse_overlong_rejected");
            }
            cx.ev(!overlong, format_args!("parse s{} {} {} -> Err({})", d, TYPE_NAMES[t], abr(text), e));
        }
        Ok(Ok(h)) => {
            cx.probe("obj.parse_ok");
            if overlong {
                cx.probe("obj.parse_overlong_accepted");
                if cfg!(feature = "f-strict") {
                    cx.fail(
                        "C14.strict_relation",
                        format!("parse:{}", TYPE_NAMES[t]),
                        format!("strict parser accepted {:?} as {} although a raw block hash exceeds the capacity", String::from_utf8_lossy(text), TYPE_NAMES[t]),
                    );
                }
            }
            // validity of what the parser returned (checked on a scratch copy
            // when the value is not going to be stored)
            let before = st.mdl[d].c.clone();
            let saved = (st.slots[d], st.mdl[d].clone());
            st.slots[d] = h;
            st.settle_local = overlong;
            let ok = settle_sig(cx, st, d, "parse", sigclass);
            st.settle_local = false;
            if ok && !overlong {
                st.mdl[d] = mdl_of(&h);
                dirty_probe(cx, &before, &st.mdl[d].c);
                cx.ev(true, format_args!("parse s{} {} {} -> {}", d, TYPE_NAMES[t], abr(text), h.forms()));
                log_alloc_forms(cx, d as usize, &h);
            } else if ok {
                st.slots[d] = saved.0;
                st.mdl[d] = saved.1;
                cx.ev(false, format_args!("parse s{} {} {} (overlong raw) -> {}", d, TYPE_NAMES[t], abr(text), h.text()));
            } else if overlong {
                // settle() re-seeded the slot; restore what was there
                st.slots[d] = saved.0;
                st.mdl[d] = saved.1;
            }
        }
    }
}

/// Like `settle` but with an argument-class suffix in the signature.
fn settle_sig(cx: &mut Ctx, st: &mut State, slot: usize, opname: &str, class: &str) -> bool {
    let n0 = cx.violations.len();
    let ok = settle(cx, st, slot, opname);
    for v in cx.violations[n0..].iter_mut() {
        v.sig = format!("{}:{}", v.sig, class);
    }
    ok
}

fn ctor_in_contract(t: usize, which: u8, bs: u32, b1: &[u8], b2: &[u8], len1: u8, len2: u8) -> bool {
    let log_ok = if which == 0 { bs % 3 == 0 && (bs / 3).is_power_of_two() } else { bs < 31 };
    if !log_ok {
        return false;
    }
    let norm = is_norm_type(t);
    if which < 2 {
        b1.len() <= 64
            && b2.len() <= cap2(t)
            && b1.iter().chain(b2.iter()).all(|&x| x < 64)
            && (!norm || (!has_long_run(b1) && !has_long_run(b2)))
    } else {
        let (l1, l2) = (len1 as usize, len2 as usize);
        l1 <= 64
            && l2 <= cap2(t)
            && b1[..l1.min(b1.len())].iter().chain(b2[..l2.min(b2.len())].iter()).all(|&x| x < 64)
            && b1[l1.min(b1.len())..].iter().chain(b2[l2.min(b2.len())..].iter()).all(|&x| x == 0)
            && (!norm || (!has_long_run(&b1[..l1]) && !has_long_run(&b2[..l2])))
    }
}

fn arr<const N: usize>(b: &[u8]) -> [u8; N] {
    let mut a = [0u8; N];
    let n = b.len().min(N);
    a[..n].copy_from_slice(&b[..n]);
    a
}

#[allow(clippy::too_many_arguments)]
fn ctor_step(cx: &mut Ctx, st: &mut State, d: usize, which: u8, bs: u32, b1: &[u8], b2: &[u8], len1: u8, len2: u8) {
    let t = slot_type(d);
    let which = if is_dual_type(t) { which % 2 } else { which % 4 };
    // full arrays for the raw-array forms
    let (fa1, fa2): (Vec<u8>, Vec<u8>) = (arr::<64>(b1).to_vec(), if cap2(t) == 64 { arr::<64>(b2).to_vec() } else { arr::<32>(b2).to_vec() });
    let in_contract = if which < 2 { ctor_in_contract(t, which, bs, b1, b2, len1, len2) } else { ctor_in_contract(t, which, bs, &fa1, &fa2, len1, len2) };
    let logb = bs.min(255) as u8;
    let dirty_before = st.slots[d];
    let mut work = st.slots[d];
    macro_rules! plain_ctor {
        ($ty:ty, $wrap:path, $s2:expr) => {{
            match which {
                0 => $wrap(<$ty>::new_from_internals(bs, b1, b2)),
                1 => $wrap(<$ty>::new_from_internals_near_raw(logb, b1, b2)),
                2 => $wrap(<$ty>::new_from_internals_raw(logb, &arr::<64>(b1), &arr::<$s2>(b2), len1, len2)),
                _ => {
                    if let $wrap(ref mut x) = work {
                        x.init_from_internals_raw(logb, &arr::<64>(b1), &arr::<$s2>(b2), len1, len2);
                    }
                    work
                }
            }
        }};
    }
    let r = guarded(|| match t {
        T_R => plain_ctor!(RawFuzzyHash, H::R, 32),
        T_LR => plain_ctor!(LongRawFuzzyHash, H::LR, 64),
        T_N => plain_ctor!(FuzzyHash, H::N, 32),
        T_LN => plain_ctor!(LongFuzzyHash, H::LN, 64),
        T_D => {
            if which == 0 {
                H::D(DualFuzzyHash::new_from_internals(bs, b1, b2))
            } else {
                H::D(DualFuzzyHash::new_from_internals_near_raw(logb, b1, b2))
            }
        }
        _ => {
            if which == 0 {
                H::LD(LongDualFuzzyHash::new_from_internals(bs, b1, b2))
            } else {
                H::LD(LongDualFuzzyHash::new_from_internals_near_raw(logb, b1, b2))
            }
        }
    });
    let names = ["new_from_internals", "new_from_internals_near_raw", "new_from_internals_raw", "init_from_internals_raw"];
    let name = names[which as usize];
    let class = if in_contract {
        "in_contract"
    } else if b1.iter().chain(b2.iter()).any(|&x| x >= 64) {
        "symbol>=64"
    } else if is_norm_type(t) && (has_long_run(b1) || has_long_run(b2)) {
        "run>3"
    } else {
        "other_out_of_contract"
    };
    match (r, in_contract) {
        (Err(m), true) => {
            cx.fail(
                "C11.ctor_contract",
                format!("{}:{}:panic_in_contract", name, TYPE_NAMES[t]),
                format!("{}::{} panicked on in-contract arguments ({}): {}", TYPE_NAMES[t], name, show_args(which, bs, b1, b2, len1, len2), m),
            );
            cx.ev(true, format_args!("ctor s{} {} -> PANIC (in contract)", d, name));
        }
        (Err(_), false) => {
            cx.probe("obj.ctor_refused");
            if which == 3 {
                cx.probe("obj.ctor_inplace_refused");
            }
            // (the in-place form may have been interrupted half-way: the
            // property does not demand exception safety; the slot keeps the
            // object it had before the call, which the call never saw)
            cx.ev(false, format_args!("ctor s{} {} {} -> refused", d, TYPE_NAMES[t], name));
            // whatever the outcome of an out-of-contract call, the slot is
            // re-created: histories stay aligned across build configurations
            st.slots[d] = H::new_of(t);
            st.mdl[d] = mdl_of(&st.slots[d]);
        }
        (Ok(h), false) => {
            // "panic instead of returning a corrupted object": returning a
            // *valid* object for out-of-contract arguments is not a violation
            cx.probe("obj.ctor_out_of_contract_returned");
            let prob = guarded(|| problem_of(&h)).unwrap_or_else(|m| Some(format!("validity check panicked: {}", m)));
            if let Some(pb) = prob {
                cx.fail(
                    "C11.ctor_contract",
                    format!("{}:{}:{}", name, TYPE_NAMES[t], class),
                    format!(
                        "{}::{} returned a corrupted object instead of panicking on out-of-contract arguments ({}): {}",
                        TYPE_NAMES[t],
                        name,
                        show_args(which, bs, b1, b2, len1, len2),
                        pb
                    ),
                );
            } else {
                cx.probe("obj.ctor_out_of_contract_returned_valid");
            }
            cx.ev(false, format_args!("ctor s{} {} {} -> returned (out of contract)", d, TYPE_NAMES[t], name));
            // do not keep whatever came back
            st.slots[d] = H::new_of(t);
            st.mdl[d] = mdl_of(&st.slots[d]);
        }
        (Ok(h), true) => {
            cx.probe("obj.ctor_ok");
            let before = st.mdl[d].c.clone();
            st.slots[d] = h;
            if settle(cx, st, d, name) {
                st.mdl[d] = mdl_of(&h);
                if is_dual_type(t) {
                    // built from raw arrays: the expansion is those arrays
                    st.mdl[d].raw = None;
                }
                dirty_probe(cx, &before, &st.mdl[d].c);
                cx.ev(true, format_args!("ctor s{} {} {} -> {}", d, TYPE_NAMES[t], name, h.forms()));
                log_alloc_forms(cx, d as usize, &h);
                unchecked_ctor_twin(cx, t, which, bs, b1, b2, len1, len2, &h, &dirty_before);
            }
        }
    }
}

fn show_args(which: u8, bs: u32, b1: &[u8], b2: &[u8], len1: u8, len2: u8) -> String {
    if which < 2 {
        format!("bs={} bh1={:?} bh2={:?}", bs, b1, b2)
    } else {
        format!("log={} len1={} len2={} bh1={:?} bh2={:?}", bs, len1, len2, b1, b2)
    }
}

#[cfg(feature = "f-unchecked")]
#[allow(clippy::too_many_arguments)]
fn unchecked_ctor_twin(cx: &mut Ctx, t: usize, which: u8, bs: u32, b1: &[u8], b2: &[u8], len1: u8, len2: u8, checked: &H, dirty: &H) {
    // C14: the unchecked entry points agree with the checked ones whenever
    // their documented contracts hold (this is only called in contract).
    let logb = bs.min(255) as u8;
    macro_rules! plain {
        ($ty:ty, $wrap:path, $s2:expr) => {{
            unsafe {
                match which {
                    0 => $wrap(<$ty>::new_from_internals_unchecked(bs, b1, b2)),
                    1 => $wrap(<$ty>::new_from_internals_near_raw_unchecked(logb, b1, b2)),
                    2 => $wrap(<$ty>::new_from_internals_raw_unchecked(logb, &arr::<64>(b1), &arr::<$s2>(b2), len1, len2)),
                    _ => {
                        // the in-place form, into the same (possibly dirty) object
                        // the checked form has just been applied to
                        let mut x = match dirty {
                            $wrap(y) => *y,
                            _ => <$ty>::new(),
                        };
                        x.init_from_internals_raw_unchecked(logb, &arr::<64>(b1), &arr::<$s2>(b2), len1, len2);
                        $wrap(x)
                    }
                }
            }
        }};
    }
    let r = guarded(|| match t {
        T_R => plain!(RawFuzzyHash, H::R, 32),
        T_LR => plain!(LongRawFuzzyHash, H::LR, 64),
        T_N => plain!(FuzzyHash, H::N, 32),
        T_LN => plain!(LongFuzzyHash, H::LN, 64),
        T_D => unsafe {
            if which == 0 {
                H::D(DualFuzzyHash::new_from_internals_unchecked(bs, b1, b2))
            } else {
                H::D(DualFuzzyHash::new_from_internals_near_raw_unchecked(logb, b1, b2))
            }
        },
        _ => unsafe {
            if which == 0 {
                H::LD(LongDualFuzzyHash::new_from_internals_unchecked(bs, b1, b2))
            } else {
                H::LD(LongDualFuzzyHash::new_from_internals_near_raw_unchecked(logb, b1, b2))
            }
        },
    });
    cx.probe("c14.unchecked_ctor_twin");
    match r {
        Ok(u) if u.full_eq(checked) => cx.ev(false, format_args!("unchecked twin agrees")),
        Ok(u) => cx.fail(
            "C14.unchecked_eq_checked",
            format!("ctor{}:{}", which, TYPE_NAMES[t]),
            format!("unchecked constructor gives {} but the checked one gives {}", abridge(&u.debug()), abridge(&checked.debug())),
        ),
        Err(m) => cx.fail(
            "C14.unchecked_eq_checked",
            format!("ctor{}:{}", which, TYPE_NAMES[t]),
            format!("unchecked constructor panicked on in-contract arguments: {}", m),
        ),
    }
}

#[cfg(not(feature = "f-unchecked"))]
#[allow(clippy::too_many_arguments)]
fn unchecked_ctor_twin(_cx: &mut Ctx, _t: usize, _which: u8, _bs: u32, _b1: &[u8], _b2: &[u8], _len1: u8, _len2: u8, _checked: &H, _dirty: &H) {}

fn record_norm(cx: &mut Ctx, st: &mut State, src: &[u8], dst: &[u8], what: &str) {
    // Every route that normalizes the same content must give the same result.
    match st.norm_map.get(src) {
        Some(prev) if prev.as_slice() != dst => cx.fail(
            "C15.chain_eq_direct",
            format!("routes_disagree:{}", what),
            format!("{} turned block hash {} into {} but another route gave {}", what, b64(src), b64(dst), b64(prev)),
        ),
        Some(_) => cx.probe("conv.norm_route_agrees"),
        None => {
            st.norm_map.insert(src.to_vec(), dst.to_vec());
        }
    }
}

fn norm_in_place_step(cx: &mut Ctx, st: &mut State, d: usize) {
    let t = slot_type(d);
    let before = st.mdl[d].clone();
    let mut h = st.slots[d];
    let r = guarded(|| {
        match &mut h {
            H::R(x) => x.normalize_in_place(),
            H::LR(x) => x.normalize_in_place(),
            H::N(x) => x.normalize_in_place(),
            H::LN(x) => x.normalize_in_place(),
            H::D(x) => x.normalize_in_place(),
            H::LD(x) => x.normalize_in_place(),
        }
        h
    });
    match r {
        Err(m) => {
            cx.fail("C15.no_panic", format!("normalize_in_place:{}", TYPE_NAMES[t]), format!("normalize_in_place panicked: {}", m));
        }
        Ok(h2) => {
            st.slots[d] = h2;
            if !settle(cx, st, d, "normalize_in_place") {
                return;
            }
            let after = content_of(&h2.view());
            if has_long_run(&before.c.1) || has_long_run(&before.c.2) {
                cx.probe("obj.normalize_in_place_shrank");
            }
            let ok = after.0 == before.c.0
                && if is_dual_type(t) || is_norm_type(t) {
                    after == before.c
                } else {
                    collapse_only(&before.c.1, &after.1) && collapse_only(&before.c.2, &after.2)
                };
            if !ok {
                cx.fail(
                    "C15.step_content",
                    format!("normalize_in_place:{}", TYPE_NAMES[t]),
                    format!("normalize_in_place turned {} into {}", show_content(&before.c), show_content(&after)),
                );
            }
            if !is_dual_type(t) && !is_norm_type(t) {
                record_norm(cx, st, &before.c.1, &after.1, "normalize_in_place");
                record_norm(cx, st, &before.c.2, &after.2, "normalize_in_place");
            }
            st.mdl[d] = Mdl { c: after.clone(), raw: if is_dual_type(t) { Some((after.1.clone(), after.2.clone())) } else { None } };
            cx.ev(true, format_args!("normalize_in_place s{} -> {}", d, h2.forms()));
            log_alloc_forms(cx, d as usize, &h2);
        }
    }
}

enum EdgeOut {
    Done(H, Option<H>),
    Refused(H),
    NotApplicable,
}

fn apply_edge(edge: Edge, src: &H, dst: &H) -> EdgeOut {
    use Edge::*;
    // (result, value-returning twin for in-place forms)
    macro_rules! done {
        ($e:expr) => {
            EdgeOut::Done($e, None)
        };
    }
    match (edge, src, dst) {
        (ToRawForm, H::N(s), _) => done!(H::R(s.to_raw_form())),
        (ToRawForm, H::LN(s), _) => done!(H::LR(s.to_raw_form())),
        (IntoMutRawForm, H::N(s), H::R(d)) => {
            let mut d = *d;
            s.into_mut_raw_form(&mut d);
            EdgeOut::Done(H::R(d), Some(H::R(s.to_raw_form())))
        }
        (IntoMutRawForm, H::LN(s), H::LR(d)) => {
            let mut d = *d;
            s.into_mut_raw_form(&mut d);
            EdgeOut::Done(H::LR(d), Some(H::LR(s.to_raw_form())))
        }
        (FromNormToRaw, H::N(s), _) => done!(H::R(RawFuzzyHash::from(*s))),
        (FromNormToRaw, H::LN(s), _) => done!(H::LR(LongRawFuzzyHash::from(*s))),
        (RawFromNormalized, H::N(s), _) => done!(H::R(RawFuzzyHash::from_normalized(s))),
        (RawFromNormalized, H::LN(s), _) => done!(H::LR(LongRawFuzzyHash::from_normalized(s))),
        (Normalize, H::R(s), _) => done!(H::N(s.normalize())),
        (Normalize, H::LR(s), _) => done!(H::LN(s.normalize())),
        (Normalize, H::N(s), _) => done!(H::N(s.normalize())),
        (Normalize, H::LN(s), _) => done!(H::LN(s.normalize())),
        (FromRawToNorm, H::R(s), _) => done!(H::N(FuzzyHash::from(*s))),
        (FromRawToNorm, H::LR(s), _) => done!(H::LN(LongFuzzyHash::from(*s))),
        (NormFromRawForm, H::R(s), _) => done!(H::N(FuzzyHash::from_raw_form(s))),
        (NormFromRawForm, H::LR(s), _) => done!(H::LN(LongFuzzyHash::from_raw_form(s))),
        (CloneNormalized, H::R(s), _) => done!(H::R(s.clone_normalized())),
        (CloneNormalized, H::LR(s), _) => done!(H::LR(s.clone_normalized())),
        (CloneNormalized, H::N(s), _) => done!(H::N(s.clone_normalized())),
        (CloneNormalized, H::LN(s), _) => done!(H::LN(s.clone_normalized())),
        (ToLongForm, H::R(s), _) => done!(H::LR(s.to_long_form())),
        (ToLongForm, H::N(s), _) => done!(H::LN(s.to_long_form())),
        (IntoMutLongForm, H::R(s), H::LR(d)) => {
            let mut d = *d;
            s.into_mut_long_form(&mut d);
            EdgeOut::Done(H::LR(d), Some(H::LR(s.to_long_form())))
        }
        (IntoMutLongForm, H::N(s), H::LN(d)) => {
            let mut d = *d;
            s.into_mut_long_form(&mut d);
            EdgeOut::Done(H::LN(d), Some(H::LN(s.to_long_form())))
        }
        (FromShortToLong, H::R(s), _) => done!(H::LR(LongRawFuzzyHash::from(*s))),
        (FromShortToLong, H::N(s), _) => done!(H::LN(LongFuzzyHash::from(*s))),
        (LongFromShortForm, H::R(s), _) => done!(H::LR(LongRawFuzzyHash::from_short_form(s))),
        (LongFromShortForm, H::N(s), _) => done!(H::LN(LongFuzzyHash::from_short_form(s))),
        (FromNormShortToLongRaw, H::N(s), _) => done!(H::LR(LongRawFuzzyHash::from(*s))),
        (TryIntoMutShort, H::LR(s), H::R(d)) => {
            let mut d2 = *d;
            match s.try_into_mut_short(&mut d2) {
                Ok(()) => EdgeOut::Done(H::R(d2), RawFuzzyHash::try_from(*s).ok().map(H::R)),
                Err(FuzzyHashOperationError::BlockHashOverflow) => EdgeOut::Refused(H::R(d2)),
                Err(_) => EdgeOut::Refused(H::R(d2)),
            }
        }
        (TryIntoMutShort, H::LN(s), H::N(d)) => {
            let mut d2 = *d;
            match s.try_into_mut_short(&mut d2) {
                Ok(()) => EdgeOut::Done(H::N(d2), FuzzyHash::try_from(*s).ok().map(H::N)),
                Err(_) => EdgeOut::Refused(H::N(d2)),
            }
        }
        (TryFromLong, H::LR(s), d) => match RawFuzzyHash::try_from(*s) {
            Ok(x) => done!(H::R(x)),
            Err(_) => EdgeOut::Refused(*d),
        },
        (TryFromLong, H::LN(s), d) => match FuzzyHash::try_from(*s) {
            Ok(x) => done!(H::N(x)),
            Err(_) => EdgeOut::Refused(*d),
        },
        (DualFromRawForm, H::R(s), _) => done!(H::D(DualFuzzyHash::from_raw_form(s))),
        (DualFromRawForm, H::LR(s), _) => done!(H::LD(LongDualFuzzyHash::from_raw_form(s))),
        (DualInitFromRawForm, H::R(s), H::D(d)) => {
            let mut d = *d;
            d.init_from_raw_form(s);
            EdgeOut::Done(H::D(d), Some(H::D(DualFuzzyHash::from_raw_form(s))))
        }
        (DualInitFromRawForm, H::LR(s), H::LD(d)) => {
            let mut d = *d;
            d.init_from_raw_form(s);
            EdgeOut::Done(H::LD(d), Some(H::LD(LongDualFuzzyHash::from_raw_form(s))))
        }
        (DualFromRaw, H::R(s), _) => done!(H::D(DualFuzzyHash::from(*s))),
        (DualFromRaw, H::LR(s), _) => done!(H::LD(LongDualFuzzyHash::from(*s))),
        (DualFromNormalized, H::N(s), _) => done!(H::D(DualFuzzyHash::from_normalized(s))),
        (DualFromNormalized, H::LN(s), _) => done!(H::LD(LongDualFuzzyHash::from_normalized(s))),
        (DualFromNorm, H::N(s), _) => done!(H::D(DualFuzzyHash::from(*s))),
        (DualFromNorm, H::LN(s), _) => done!(H::LD(LongDualFuzzyHash::from(*s))),
        (DualToRawForm, H::D(s), _) => done!(H::R(s.to_raw_form())),
        (DualToRawForm, H::LD(s), _) => done!(H::LR(s.to_raw_form())),
        (DualIntoMutRawForm, H::D(s), H::R(d)) => {
            let mut d = *d;
            s.into_mut_raw_form(&mut d);
            EdgeOut::Done(H::R(d), Some(H::R(s.to_raw_form())))
        }
        (DualIntoMutRawForm, H::LD(s), H::LR(d)) => {
            let mut d = *d;
            s.into_mut_raw_form(&mut d);
            EdgeOut::Done(H::LR(d), Some(H::LR(s.to_raw_form())))
        }
        (DualToNormalized, H::D(s), _) => done!(H::N(s.to_normalized())),
        (DualToNormalized, H::LD(s), _) => done!(H::LN(s.to_normalized())),
        (DualAsNormalized, H::D(s), _) => {
            let r: &FuzzyHash = s.as_ref();
            EdgeOut::Done(H::N(*s.as_normalized()), Some(H::N(*r)))
        }
        (DualAsNormalized, H::LD(s), _) => {
            let r: &LongFuzzyHash = s.as_ref();
            EdgeOut::Done(H::LN(*s.as_normalized()), Some(H::LN(*r)))
        }
        (Copy, s, _) => done!(*s),
        _ => EdgeOut::NotApplicable,
    }
}

fn conv_step(cx: &mut Ctx, st: &mut State, s: usize, d: usize, edge: Edge) {
    let (ts, td) = (slot_type(s), slot_type(d));
    if edge.dst_type(ts) != Some(td) {
        cx.ev(true, format_args!("convert s{}->s{} {} not applicable", s, d, edge.name()));
        return;
    }
    let src = st.slots[s];
    let dst_before = st.slots[d];
    let sm = st.mdl[s].clone();
    let dm_before = st.mdl[d].clone();
    let sig = format!("{}:{}->{}", edge.name(), TYPE_NAMES[ts], TYPE_NAMES[td]);
    let r = guarded(|| apply_edge(edge, &src, &dst_before));
    let out = match r {
        Err(m) => {
            cx.fail("C15.no_panic", sig, format!("{} panicked on {}: {}", edge.name(), show_content(&sm.c), m));
            cx.ev(true, format_args!("convert s{}->s{} {} -> PANIC", s, d, edge.name()));
            // the destination may have been partially written by an in-place form
            if edge.in_place() {
                st.slots[d] = H::new_of(td);
                st.mdl[d] = mdl_of(&st.slots[d]);
            }
            return;
        }
        Ok(o) => o,
    };
    // what the source's content is, in the destination's terms
    let src_raw_known: Option<(Vec<u8>, Vec<u8>)> = if is_dual_type(ts) { sm.raw.clone() } else { Some((sm.c.1.clone(), sm.c.2.clone())) };
    let narrowing = matches!(edge, Edge::TryIntoMutShort | Edge::TryFromLong);
    match out {
        EdgeOut::NotApplicable => {
            cx.ev(true, format_args!("convert s{}->s{} {} not applicable", s, d, edge.name()));
        }
        EdgeOut::Refused(d_after) => {
            cx.probe("conv.narrow_refused");
            let must_fail = sm.c.2.len() > 32;
            if !narrowing || !must_fail {
                cx.fail(
                    "C15.narrow_fail_iff",
                    sig.clone(),
                    format!("{} refused {} although block hash 2 has {} <= 32 symbols", edge.name(), show_content(&sm.c), sm.c.2.len()),
                );
            }
            // the destination must be bit-for-bit what it was
            if !d_after.full_eq(&dst_before) || d_after.debug() != dst_before.debug() {
                cx.fail(
                    "C15.narrow_fail_iff",
                    format!("{}:dest_touched", sig),
                    format!("refused {} modified its destination: before {} after {}", edge.name(), abridge(&dst_before.debug()), abridge(&d_after.debug())),
                );
                st.slots[d] = d_after;
                if settle(cx, st, d, edge.name()) {
                    st.mdl[d] = mdl_of(&st.slots[d]);
                }
            }
            cx.ev(true, format_args!("convert s{}->s{} {} -> refused", s, d, edge.name()));
        }
        EdgeOut::Done(h, twin) => {
            if narrowing {
                cx.probe("conv.narrow_ok");
                if sm.c.2.len() > 32 {
                    cx.fail(
                        "C15.narrow_fail_iff",
                        sig.clone(),
                        format!("{} accepted {} although block hash 2 has {} > 32 symbols", edge.name(), show_content(&sm.c), sm.c.2.len()),
                    );
                }
            }
            // in-place form vs its value-returning twin on the same source: the
            // conversion itself is the culprit if they differ, whether or not the
            // result is also an invalid object (which C11 reports separately)
            if let Some(tw) = twin {
                cx.probe("conv.inplace_vs_fresh");
                let same = guarded(|| h.full_eq(&tw)).unwrap_or(false);
                if !same {
                    cx.fail(
                        "C15.inplace_eq_fresh",
                        sig.clone(),
                        format!(
                            "{} into a used destination gives {} but the value-returning form gives {}",
                            edge.name(),
                            abridge(&guarded(|| h.debug()).unwrap_or_default()),
                            abridge(&guarded(|| tw.debug()).unwrap_or_default())
                        ),
                    );
                }
            }
            st.slots[d] = h;
            if !settle(cx, st, d, edge.name()) {
                // invalid result: C11 reported it; the content checks of C15 do not judge garbage
                cx.ev(true, format_args!("convert s{}->s{} {} -> INVALID", s, d, edge.name()));
                return;
            }
            dirty_probe(cx, &dm_before.c, &content_of(&h.view()));
            if dm_before.c.1.len() + dm_before.c.2.len() > 0 {
                cx.probe("conv.dirty_destination");
            }
            let got = content_of(&h.view());
            // expected content
            use Edge::*;
            let lossy_plain = matches!(edge, Normalize | FromRawToNorm | NormFromRawForm | CloneNormalized) && !is_norm_type(ts);
            let mut new_mdl = Mdl { c: got.clone(), raw: None };
            let mut ok = got.0 == sm.c.0;
            let mut why = String::new();
            if !ok {
                why = "block size changed".to_string();
            }
            if edge == Copy {
                if got != sm.c {
                    ok = false;
                    why = "a copy differs from its source".to_string();
                }
                new_mdl.raw = sm.raw.clone();
            } else if is_dual_type(td) {
                // plain -> dual: the normalized part is a collapse of the source
                // (identity for a normalized source), the expansion is the source
                let (r1, r2) = src_raw_known.clone().unwrap();
                if is_norm_type(ts) {
                    if got.1 != r1 || got.2 != r2 {
                        ok = false;
                        why = "normalized part differs from the normalized source".to_string();
                    }
                } else {
                    if !(collapse_only(&r1, &got.1) && collapse_only(&r2, &got.2)) {
                        ok = false;
                        why = "normalized part is not a run-collapse of the source".to_string();
                    }
                    record_norm(cx, st, &r1, &got.1, edge.name());
                    record_norm(cx, st, &r2, &got.2, edge.name());
                }
                new_mdl.raw = Some((r1, r2));
            } else if is_dual_type(ts) {
                match edge {
                    DualToRawForm | DualIntoMutRawForm => {
                        if let Some((r1, r2)) = &src_raw_known {
                            cx.probe("conv.dual_expand_known");
                            if &got.1 != r1 || &got.2 != r2 {
                                ok = false;
                                why = format!("expansion differs from the raw hash the dual was built from ({}:{})", b64(r1), b64(r2));
                            }
                        } else {
                            // origin of this dual was a parser / constructor: what its
                            // expansion must be is C07's business, not judged here
                            cx.probe("conv.dual_expand_unknown");
                        }
                    }
                    _ => {
                        if got.1 != sm.c.1 || got.2 != sm.c.2 {
                            ok = false;
                            why = "normalized view differs from the dual's normalized part".to_string();
                        }
                    }
                }
            } else if lossy_plain {
                cx.probe("conv.lossy");
                if !(collapse_only(&sm.c.1, &got.1) && collapse_only(&sm.c.2, &got.2)) {
                    ok = false;
                    why = "result is not the source with runs shortened".to_string();
                }
                record_norm(cx, st, &sm.c.1, &got.1, edge.name());
                record_norm(cx, st, &sm.c.2, &got.2, edge.name());
            } else {
                cx.probe("conv.lossless");
                if got.1 != sm.c.1 || got.2 != sm.c.2 {
                    ok = false;
                    why = "a lossless conversion changed the content".to_string();
                }
            }
            if !ok {
                cx.fail(
                    "C15.step_content",
                    sig,
                    format!("{}: {} -> {}: {}", edge.name(), show_content(&sm.c), show_content(&got), why),
                );
            }
            st.mdl[d] = new_mdl;
            cx.ev(true, format_args!("convert s{}->s{} {} -> {}", s, d, edge.name(), h.forms()));
            log_alloc_forms(cx, d as usize, &h);
        }
    }
}

#[cfg(all(feature = "f-unchecked", not(debug_assertions)))]
fn corrupt_step(cx: &mut Ctx, t: usize, kind: u8) {
    // Deliberately corrupted objects (possible only through the unsafe
    // `_unchecked` constructors): the three observers must still return and
    // is_valid() must say false.
    let mut a1 = [0u8; 64];
    let mut a2s = [0u8; 32];
    let mut a2l = [0u8; 64];
    let (mut l1, mut l2, mut log) = (5u8, 3u8, 4u8);
    for i in 0..5 {
        a1[i] = i as u8 + 1;
    }
    for i in 0..3 {
        a2s[i] = i as u8 + 9;
        a2l[i] = i as u8 + 9;
    }
    match kind % 6 {
        0 => l1 = 65,
        1 => l2 = 200,
        2 => log = 31,
        3 => a1[2] = 64,
        4 => a1[63] = 1,
        _ => {
            l1 = 255;
            log = 255;
        }
    }
    let r = guarded(|| unsafe {
        let h = match t {
            T_R => H::R(RawFuzzyHash::new_from_internals_raw_unchecked(log, &a1, &a2s, l1, l2)),
            T_LR => H::LR(LongRawFuzzyHash::new_from_internals_raw_unchecked(log, &a1, &a2l, l1, l2)),
            T_N => H::N(FuzzyHash::new_from_internals_raw_unchecked(log, &a1, &a2s, l1, l2)),
            _ => H::LN(LongFuzzyHash::new_from_internals_raw_unchecked(log, &a1, &a2l, l1, l2)),
        };
        let v = h.is_valid();
        let _ = h.debug();
        let _ = h.full_eq(&h);
        v
    });
    // Objects obtained by violating the contract of an `unsafe` constructor are
    // outside C11's quantifier (sequences of *safe* operations): what the
    // observers do on them is recorded, not judged.
    cx.probe("obj.corrupt_observed");
    match r {
        Ok(false) => cx.ev(false, format_args!("corrupt {} k{} observed: is_valid()=false", TYPE_NAMES[t], kind % 6)),
        Ok(true) => {
            cx.probe("obj.corrupt_claims_valid");
            cx.ev(false, format_args!("corrupt {} k{} observed: is_valid()=true", TYPE_NAMES[t], kind % 6))
        }
        Err(_) => {
            cx.probe("obj.corrupt_observer_panicked");
            cx.ev(false, format_args!("corrupt {} k{}: an observer panicked", TYPE_NAMES[t], kind % 6))
        }
    }
}

#[cfg(not(all(feature = "f-unchecked", not(debug_assertions))))]
fn corrupt_step(cx: &mut Ctx, t: usize, kind: u8) {
    cx.ev(false, format_args!("corrupt {} k{} unavailable in this build", TYPE_NAMES[t], kind % 6));
}

// ---------------------------------------------------------------------------
// Generation

/// A block hash (symbol values) with runs, of a chosen length class.
pub fn gen_bh(rng: &mut Rng, cap: usize, allow_over: bool) -> Vec<u8> {
    let target = match rng.below(12) {
        0 => 0,
        1 => rng.range(1, 6) as usize,
        2 => 7,
        3 => rng.range(8, cap as u64) as usize,
        4 => cap,
        5 => cap.saturating_sub(1),
        6 => cap / 2,
        7 if allow_over => cap + 1 + rng.below(4) as usize,
        8 if allow_over => cap + rng.range(1, 140) as usize,
        _ => rng.range(0, cap as u64) as usize,
    };
    let mut v: Vec<u8> = Vec::with_capacity(target);
    let alpha = match rng.below(4) {
        0 => 2,
        1 => 4,
        _ => 64,
    };
    while v.len() < target {
        let sym = if rng.chance(1, 6) { 0 } else { rng.below(alpha) as u8 };
        let run = match rng.below(10) {
            0..=4 => 1,
            5 => 2,
            6 => 3,
            7 => 4,
            8 => rng.range(5, 12) as usize,
            _ => rng.range(1, 70) as usize,
        };
        for _ in 0..run.min(target - v.len()) {
            v.push(sym);
        }
    }
    v
}

/// A *normalized* block hash of exactly `len` symbols with runs (1..=3)
/// touching both ends -- of the same symbol half of the time (position 0 and
/// position len-1 then belong to "the same run" for any code that wraps).
pub fn gen_bh_edges(rng: &mut Rng, len: usize) -> Vec<u8> {
    if len < 8 {
        return gen_bh(rng, len, false).into_iter().take(len).collect();
    }
    let a = rng.below(64) as u8;
    let b = if rng.chance(1, 2) { a } else { rng.below(64) as u8 };
    let k1 = rng.range(1, 3) as usize;
    let k2 = rng.range(1, 3) as usize;
    let mut v: Vec<u8> = vec![a; k1];
    // a normalized middle that does not extend the edge runs
    let mut prev = a;
    while v.len() < len - k2 {
        let alpha = if rng.chance(1, 3) { 3 } else { 64 };
        let mut sym = rng.below(alpha) as u8;
        let last_slot = v.len() + 1 >= len - k2;
        while sym == prev || (last_slot && sym == b) {
            sym = (sym + 1) % 64;
        }
        let run = (rng.range(1, 3) as usize).min(len - k2 - v.len());
        // keep the symbol before the trailing run different from it
        for _ in 0..run {
            v.push(sym);
        }
        prev = sym;
        if v.len() == len - k2 && sym == b {
            let n = v.len();
            v[n - 1] = (b + 1) % 64;
        }
    }
    v.truncate(len - k2);
    for _ in 0..k2 {
        v.push(b);
    }
    v
}

pub fn collapse(b: &[u8]) -> Vec<u8> {
    let mut v: Vec<u8> = Vec::new();
    let mut run = 0;
    for &x in b {
        if v.last() == Some(&x) {
            run += 1;
            if run >= 3 {
                continue;
            }
        } else {
            run = 0;
        }
        v.push(x);
    }
    v
}

/// A block hash whose *collapsed* length fits `cap` although the raw one may not.
fn gen_bh_fits_after_collapse(rng: &mut Rng, cap: usize) -> Vec<u8> {
    // few long runs
    let mut v = Vec::new();
    let nruns = rng.range(1, (cap / 3).max(1) as u64) as usize;
    for _ in 0..nruns {
        let sym = rng.below(64) as u8;
        let run = match rng.below(4) {
            0 => rng.range(4, 12),
            1 => rng.range(30, 80),
            _ => rng.range(1, 4),
        } as usize;
        if v.last() == Some(&sym) {
            continue;
        }
        for _ in 0..run {
            v.push(sym);
        }
    }
    while collapse(&v).len() > cap {
        v.pop();
    }
    v
}

/// A block hash whose raw length is the capacity + 1..=4 (or exactly the
/// capacity) but whose run-collapsed length fits: one run is stretched.
fn gen_bh_just_over(rng: &mut Rng, cap: usize) -> Vec<u8> {
    let mut c = collapse(&gen_bh(rng, cap, false));
    c.truncate(cap.saturating_sub(3));
    // make sure there is a run of 3 to stretch
    let pos = if c.is_empty() { 0 } else { rng.usize_below(c.len()) };
    let sym = if c.is_empty() { rng.below(64) as u8 } else { c[pos] };
    let target = cap + rng.below(5) as usize;
    let mut v: Vec<u8> = c[..pos].to_vec();
    // avoid merging with the neighbours
    let rest: Vec<u8> = c[pos..].iter().copied().skip_while(|&x| x == sym).collect();
    while v.last() == Some(&sym) {
        v.pop();
    }
    let fill = target.saturating_sub(v.len() + rest.len()).max(4);
    for _ in 0..fill {
        v.push(sym);
    }
    v.extend_from_slice(&rest);
    v
}

fn bs_text(rng: &mut Rng) -> String {
    match rng.below(18) {
        0 => "".to_string(),
        1 => "0".to_string(),
        2 => format!("0{}", 3u64 << rng.below(31)),
        3 => format!("{}", (3u64 << rng.below(31)) + 1),
        4 => "4294967296".to_string(),
        5 => "6442450944".to_string(), // 3*2^31
        6 => "99999999999999999999".to_string(),
        7 => format!("{}", rng.below(100)),
        // values with arithmetic structure near the valid ones: powers of two
        // and small multiples, 32-bit boundaries, one below a valid size
        8 => format!("{}", 1u64 << rng.below(33)),
        9 => format!("{}", (1u64 << rng.below(31)) * *rng.pick(&[5u64, 7, 9, 6, 12])),
        10 => format!("{}", rng.next_u64() as u32),
        11 => format!("{}", (3u64 << rng.below(31)) - 1),
        12 => format!("{}", *rng.pick(&[2147483647u64, 2147483648, 2147483649, 4294967295, 4294967293, 3221225472, 3221225473, 1610612736, 1431655765, 2863311531])),
        _ => format!("{}", 3u64 << rng.below(31)),
    }
}

pub fn gen_text(rng: &mut Rng, t: usize, mutate: bool) -> Vec<u8> {
    let c2 = cap2(t);
    let style = rng.below(12);
    let (b1, b2) = match style {
        0 | 1 => (gen_bh_fits_after_collapse(rng, 64), gen_bh_fits_after_collapse(rng, c2)),
        9 => (gen_bh_edges(rng, 64), gen_bh_edges(rng, c2)),
        10 => (gen_bh(rng, 64, false), gen_bh_just_over(rng, c2)),
        11 => (gen_bh_just_over(rng, 64), gen_bh(rng, c2, false)),
        2 => (gen_bh(rng, 64, true), gen_bh(rng, c2, false)),
        3 => (gen_bh(rng, 64, false), gen_bh(rng, c2, true)),
        _ => (gen_bh(rng, 64, false), gen_bh(rng, c2, false)),
    };
    let bs = if mutate || rng.chance(1, 12) { bs_text(rng) } else { format!("{}", 3u64 << rng.below(31)) };
    let mut s = format!("{}:{}:{}", bs, b64(&b1), b64(&b2)).into_bytes();
    if rng.chance(1, 5) {
        s.push(b',');
        let n = rng.below(12) as usize;
        let tail = rng.bytes(n);
        s.extend_from_slice(&tail);
    }
    if mutate {
        let n = rng.range(1, 3);
        for _ in 0..n {
            if s.is_empty() {
                break;
            }
            let p = rng.usize_below(s.len());
            let c = *rng.pick(&[b':', b',', b' ', b'=', b'-', 0u8, 0x80, 0xff, b'A', b'/', b'+', b'\n']);
            match rng.below(4) {
                0 => s.insert(p, c),
                1 => {
                    s.remove(p);
                }
                2 => s[p] = c,
                _ => s.truncate(p),
            }
        }
    }
    s
}

fn gen_ctor(rng: &mut Rng, dst: u8, out_of_contract: bool) -> Op {
    let t = slot_type(dst as usize);
    let c2 = cap2(t);
    let which = rng.below(4) as u8;
    let which_eff = if is_dual_type(t) { which % 2 } else { which };
    let norm = is_norm_type(t);
    let mut b1 = gen_bh(rng, 64, false);
    let mut b2 = gen_bh(rng, c2, false);
    if norm {
        b1 = collapse(&b1);
        b2 = collapse(&b2);
    }
    let k = rng.below(31) as u32;
    let mut bs = if which_eff == 0 { 3u32 << k } else { k };
    let mut len1 = b1.len() as u8;
    let mut len2 = b2.len() as u8;
    if out_of_contract {
        match rng.below(8) {
            0 => bs = if which_eff == 0 { *rng.pick(&[0u32, 1, 2, 4, 6 + 1, 3 * 5, u32::MAX]) } else { *rng.pick(&[31u32, 32, 64, 255]) },
            1 => {
                if which_eff < 2 {
                    if rng.chance(1, 2) {
                        b1 = gen_bh_just_over(rng, 64);
                        if b1.len() <= 64 {
                            let last = *b1.last().unwrap_or(&1);
                            while b1.len() <= 64 {
                                b1.push(last);
                            }
                        }
                    } else {
                        b1 = gen_bh(rng, 64, true);
                        while b1.len() <= 64 {
                            b1.push(1 + (b1.len() % 60) as u8);
                        }
                    }
                } else {
                    len1 = *rng.pick(&[65u8, 100, 255]);
                }
            }
            2 => {
                if which_eff < 2 {
                    if rng.chance(1, 2) {
                        // over-long, but with runs: collapsible into the capacity
                        b2 = gen_bh_just_over(rng, c2);
                        if b2.len() <= c2 {
                            let last = *b2.last().unwrap_or(&1);
                            while b2.len() <= c2 {
                                b2.push(last);
                            }
                        }
                    } else {
                        while b2.len() <= c2 {
                            b2.push(1 + (b2.len() % 60) as u8);
                        }
                    }
                } else {
                    len2 = (c2 as u8) + *rng.pick(&[1u8, 2, 50]);
                }
            }
            3 | 4 => {
                // symbol >= 64
                let v = *rng.pick(&[64u8, 65, 128, 200, 255]);
                if rng.chance(1, 2) || b2.is_empty() {
                    if b1.is_empty() {
                        b1.push(v);
                        len1 = 1;
                    } else {
                        let p = rng.usize_below(b1.len());
                        b1[p] = v;
                    }
                } else {
                    let p = rng.usize_below(b2.len());
                    b2[p] = v;
                }
            }
            5 | 6 if norm => {
                // a run longer than 3 in a normalizing type
                let sym = rng.below(64) as u8;
                let run = rng.range(4, 9) as usize;
                let first = rng.chance(1, 2);
                let (target, capx) = if first { (&mut b1, 64) } else { (&mut b2, c2) };
                target.truncate(capx.saturating_sub(run));
                for _ in 0..run {
                    target.push(sym);
                }
                len1 = b1.len() as u8;
                len2 = b2.len() as u8;
            }
            _ => {
                if which_eff >= 2 {
                    // non-zero tail in the full-array forms
                    if (len1 as usize) < 64 {
                        b1.resize(64, 0);
                        let p = rng.range(len1 as u64, 63) as usize;
                        b1[p] = 1 + rng.below(63) as u8;
                    } else {
                        len1 = 65;
                    }
                } else {
                    bs = if which_eff == 0 { 5 } else { 31 };
                }
            }
        }
    }
    Op::Ctor { dst, which, bs, b1, b2, len1, len2 }
}

fn pick_slot_of_type(rng: &mut Rng, t: usize) -> u8 {
    (t + 6 * rng.usize_below(2)) as u8
}

fn gen_conv(rng: &mut Rng) -> Op {
    loop {
        let edge = *rng.pick(&EDGES);
        let st = rng.usize_below(6);
        if let Some(dt) = edge.dst_type(st) {
            if edge == Edge::Copy && rng.chance(3, 4) {
                continue;
            }
            let src = pick_slot_of_type(rng, st);
            let dst = pick_slot_of_type(rng, dt);
            return Op::Conv { src, dst, edge };
        }
    }
}

fn gen_source(rng: &mut Rng, garbage: bool) -> Op {
    let dst = rng.below(NSLOTS as u64) as u8;
    let t = slot_type(dst as usize);
    match rng.below(10) {
        0 | 1 if t < 2 => {
            let n = match rng.below(3) {
                0 => rng.below(64),
                1 => rng.range(64, 2000),
                _ => rng.range(2000, 9000),
            } as usize;
            Op::Gen { dst, bytes: rng.bytes(n), variant: rng.below(3) as u8 }
        }
        2 => Op::New { dst, via: rng.below(2) as u8 },
        3 | 4 | 5 => {
            let ooc = garbage && rng.chance(1, 2);
            gen_ctor(rng, dst, ooc)
        }
        _ => {
            let m = garbage && rng.chance(1, 3);
            let mut text = gen_text(rng, t, m);
            if !garbage {
                // conversion histories (C15) start from *valid* sources: a text
                // whose raw block hash exceeds the capacity is a parser matter
                // (C04/C11) and must not be able to take this scenario down
                let mut guard = 0;
                while guard < 8 {
                    match raw_field_lengths(&text) {
                        Some((l1, l2)) if l1 > 64 || l2 > cap2(t) => {
                            text = gen_text(rng, t, false);
                            guard += 1;
                        }
                        _ => break,
                    }
                }
                if guard == 8 {
                    text = b"3::".to_vec();
                }
            }
            Op::Parse { dst, text, via: rng.below(3) as u8 }
        }
    }
}

/// C11 histories: everything, including garbage and out-of-contract calls.
pub fn generate_c11(seed: u64) -> Vec<Op> {
    let mut rng = Rng::new(seed);
    let n = rng.range(10, 60) as usize;
    let mut ops = Vec::new();
    // swarm weights
    let w_src = rng.range(1, 6) as u32;
    let w_conv = rng.range(1, 8) as u32;
    let w_norm = rng.range(0, 3) as u32;
    let w_corrupt = if rng.chance(1, 4) { 1 } else { 0 };
    for _ in 0..n {
        match rng.weighted(&[w_src, w_conv, w_norm, w_corrupt]) {
            0 => ops.push(gen_source(&mut rng, true)),
            1 => ops.push(gen_conv(&mut rng)),
            2 => ops.push(Op::NormalizeInPlace { dst: rng.below(NSLOTS as u64) as u8 }),
            _ => ops.push(Op::Corrupt { ty: rng.below(4) as u8, kind: rng.below(6) as u8 }),
        }
    }
    ops
}

/// C15 histories: valid sources, then chains of conversions over the graph.
pub fn generate_c15(seed: u64) -> Vec<Op> {
    let mut rng = Rng::new(seed);
    let mut ops = Vec::new();
    let nsrc = rng.range(2, 8);
    for _ in 0..nsrc {
        ops.push(gen_source(&mut rng, false));
    }
    let nchains = rng.range(1, 6);
    for _ in 0..nchains {
        // a chain: each conversion starts where the previous one ended
        let len = rng.range(1, 8);
        let mut cur: Option<u8> = None;
        for _ in 0..len {
            let src = match cur {
                Some(s) => s,
                None => rng.below(NSLOTS as u64) as u8,
            };
            let st = slot_type(src as usize);
            let cands: Vec<Edge> = EDGES.iter().copied().filter(|e| e.dst_type(st).is_some() && *e != Edge::Copy).collect();
            if cands.is_empty() {
                break;
            }
            let edge = *rng.pick(&cands);
            let dt = edge.dst_type(st).unwrap();
            let mut dst = pick_slot_of_type(&mut rng, dt);
            if dst == src {
                dst = ((dst as usize + 6) % NSLOTS) as u8;
            }
            ops.push(Op::Conv { src, dst, edge });
            cur = Some(dst);
            if rng.chance(1, 8) {
                ops.push(Op::NormalizeInPlace { dst });
            }
        }
        if rng.chance(1, 3) {
            ops.push(gen_source(&mut rng, false));
        }
    }
    ops
}
