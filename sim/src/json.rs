//! Minimal JSON value, writer and parser (integers only; no floats needed).

use std::fmt::Write;

#[derive(Clone, Debug, PartialEq)]
pub enum J {
    Null,
    Bool(bool),
    Int(i128),
    Str(String),
    Arr(Vec<J>),
    Obj(Vec<(String, J)>),
}

impl J {
    pub fn obj(kv: Vec<(&str, J)>) -> J {
        J::Obj(kv.into_iter().map(|(k, v)| (k.to_string(), v)).collect())
    }
    pub fn s(x: &str) -> J {
        J::Str(x.to_string())
    }
    pub fn u(x: u64) -> J {
        J::Int(x as i128)
    }
    pub fn get(&self, k: &str) -> Option<&J> {
        match self {
            J::Obj(v) => v.iter().find(|(kk, _)| kk == k).map(|(_, v)| v),
            _ => None,
        }
    }
    pub fn str_(&self) -> Option<&str> {
        match self {
            J::Str(s) => Some(s),
            _ => None,
        }
    }
    pub fn u64_(&self) -> Option<u64> {
        match self {
            J::Int(i) if *i >= 0 && *i <= u64::MAX as i128 => Some(*i as u64),
            _ => None,
        }
    }
    pub fn bool_(&self) -> Option<bool> {
        match self {
            J::Bool(b) => Some(*b),
            _ => None,
        }
    }
    pub fn arr(&self) -> Option<&Vec<J>> {
        match self {
            J::Arr(a) => Some(a),
            _ => None,
        }
    }
    pub fn gs(&self, k: &str) -> Result<&str, String> {
        self.get(k).and_then(|x| x.str_()).ok_or_else(|| format!("missing string field {}", k))
    }
    pub fn gu(&self, k: &str) -> Result<u64, String> {
        self.get(k).and_then(|x| x.u64_()).ok_or_else(|| format!("missing integer field {}", k))
    }
    pub fn gb(&self, k: &str) -> Result<bool, String> {
        self.get(k).and_then(|x| x.bool_()).ok_or_else(|| format!("missing bool field {}", k))
    }
    pub fn ga(&self, k: &str) -> Result<&Vec<J>, String> {
        self.get(k).and_then(|x| x.arr()).ok_or_else(|| format!("missing array field {}", k))
    }

    pub fn write(&self, out: &mut String) {
        match self {
            J::Null => out.push_str("null"),
            J::Bool(b) => out.push_str(if *b { "true" } else { "false" }),
            J::Int(i) => {
                let _ = write!(out, "{}", i);
            }
            J::Str(s) => write_str(s, out),
            J::Arr(a) => {
                out.push('[');
                for (i, x) in a.iter().enumerate() {
                    if i > 0 {
                        out.push(',');
                    }
                    x.write(out);
                }
                out.push(']');
            }
            J::Obj(o) => {
                out.push('{');
                for (i, (k, v)) in o.iter().enumerate() {
                    if i > 0 {
                        out.push(',');
                    }
                    write_str(k, out);
                    out.push(':');
                    v.write(out);
                }
                out.push('}');
            }
        }
    }
    pub fn to_string(&self) -> String {
        let mut s = String::new();
        self.write(&mut s);
        s
    }
}

fn write_str(s: &str, out: &mut String) {
    out.push('"');
    for c in s.chars() {
        match c {
            '"' => out.push_str("\\\""),
            '\\' => out.push_str("\\\\"),
            '\n' => out.push_str("\\n"),
            '\r' => out.push_str("\\r"),
            '\t' => out.push_str("\\t"),
            c if (c as u32) < 0x20 => {
                let _ = write!(out, "\\u{:04x}", c as u32);
            }
            c => out.push(c),
        }
    }
    out.push('"');
}

pub fn parse(s: &str) -> Result<J, String> {
    let b = s.as_bytes();
    let mut p = 0usize;
    let v = parse_val(b, &mut p)?;
    skip_ws(b, &mut p);
    if p != b.len() {
        return Err(format!("trailing data at {}", p));
    }
    Ok(v)
}

fn skip_ws(b: &[u8], p: &mut usize) {
    while *p < b.len() && matches!(b[*p], b' ' | b'\n' | b'\r' | b'\t') {
        *p += 1;
    }
}

fn parse_val(b: &[u8], p: &mut usize) -> Result<J, String> {
    skip_ws(b, p);
    if *p >= b.len() {
        return Err("unexpected end".into());
    }
    match b[*p] {
        b'n' if b[*p..].starts_with(b"null") => {
            *p += 4;
            Ok(J::Null)
        }
        b't' if b[*p..].starts_with(b"true") => {
            *p += 4;
            Ok(J::Bool(true))
        }
        b'f' if b[*p..].starts_with(b"false") => {
            *p += 5;
            Ok(J::Bool(false))
        }
        b'"' => Ok(J::Str(parse_str(b, p)?)),
        b'[' => {
            *p += 1;
            let mut v = Vec::new();
            skip_ws(b, p);
            if *p < b.len() && b[*p] == b']' {
                *p += 1;
                return Ok(J::Arr(v));
            }
            loop {
                v.push(parse_val(b, p)?);
                skip_ws(b, p);
                if *p >= b.len() {
                    return Err("unterminated array".into());
                }
                match b[*p] {
                    b',' => *p += 1,
                    b']' => {
                        *p += 1;
                        return Ok(J::Arr(v));
                    }
                    _ => return Err(format!("bad array at {}", p)),
                }
            }
        }
        b'{' => {
            *p += 1;
            let mut v = Vec::new();
            skip_ws(b, p);
            if *p < b.len() && b[*p] == b'}' {
                *p += 1;
                return Ok(J::Obj(v));
            }
            loop {
                skip_ws(b, p);
                let k = parse_str(b, p)?;
                skip_ws(b, p);
                if *p >= b.len() || b[*p] != b':' {
                    return Err(format!("expected ':' at {}", p));
                }
                *p += 1;
                let val = parse_val(b, p)?;
                v.push((k, val));
                skip_ws(b, p);
                if *p >= b.len() {
                    return Err("unterminated object".into());
                }
                match b[*p] {
                    b',' => *p += 1,
                    b'}' => {
                        *p += 1;
                        return Ok(J::Obj(v));
                    }
                    _ => return Err(format!("bad object at {}", p)),
                }
            }
        }
        b'-' | b'0'..=b'9' => {
            let st = *p;
            if b[*p] == b'-' {
                *p += 1;
            }
            while *p < b.len() && b[*p].is_ascii_digit() {
                *p += 1;
            }
            // tolerate (and truncate) a fractional part
            let end = *p;
            if *p < b.len() && b[*p] == b'.' {
                *p += 1;
                while *p < b.len() && b[*p].is_ascii_digit() {
                    *p += 1;
                }
            }
            let txt = std::str::from_utf8(&b[st..end]).unwrap();
            txt.parse::<i128>().map(J::Int).map_err(|e| format!("bad number {}: {}", txt, e))
        }
        c => Err(format!("unexpected byte {} at {}", c, p)),
    }
}

fn parse_str(b: &[u8], p: &mut usize) -> Result<String, String> {
    if *p >= b.len() || b[*p] != b'"' {
        return Err(format!("expected string at {}", p));
    }
    *p += 1;
    let mut out: Vec<u8> = Vec::new();
    while *p < b.len() {
        let c = b[*p];
        *p += 1;
        match c {
            b'"' => return String::from_utf8(out).map_err(|e| e.to_string()),
            b'\\' => {
                if *p >= b.len() {
                    break;
                }
                let e = b[*p];
                *p += 1;
                match e {
                    b'n' => out.push(b'\n'),
                    b'r' => out.push(b'\r'),
                    b't' => out.push(b'\t'),
                    b'b' => out.push(8),
                    b'f' => out.push(12),
                    b'u' => {
                        if *p + 4 > b.len() {
                            return Err("bad \\u".into());
                        }
                        let h = std::str::from_utf8(&b[*p..*p + 4]).map_err(|e| e.to_string())?;
                        let cp = u32::from_str_radix(h, 16).map_err(|e| e.to_string())?;
                        *p += 4;
                        let ch = char::from_u32(cp).unwrap_or('\u{fffd}');
                        let mut buf = [0u8; 4];
                        out.extend_from_slice(ch.encode_utf8(&mut buf).as_bytes());
                    }
                    other => out.push(other),
                }
            }
            c => out.push(c),
        }
    }
    Err("unterminated string".into())
}

pub fn hex(b: &[u8]) -> String {
    let mut s = String::with_capacity(b.len() * 2);
    for x in b {
        let _ = write!(s, "{:02x}", x);
    }
    s
}

pub fn unhex(s: &str) -> Result<Vec<u8>, String> {
    let b = s.as_bytes();
    if b.len() % 2 != 0 {
        return Err("odd hex".into());
    }
    let mut v = Vec::with_capacity(b.len() / 2);
    for i in (0..b.len()).step_by(2) {
        let h = std::str::from_utf8(&b[i..i + 2]).map_err(|e| e.to_string())?;
        v.push(u8::from_str_radix(h, 16).map_err(|e| e.to_string())?);
    }
    Ok(v)
}
