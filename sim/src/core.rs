//! Execution context shared by all scenarios: event log with portable /
//! local lines, rolling digests, probes, violations.

use std::collections::{BTreeMap, BTreeSet};
use std::fmt::Write;

#[derive(Clone, Debug)]
pub struct Violation {
    /// Check id, `Cnn.name`.
    pub check: &'static str,
    /// Coarse class of what failed (used to match known findings).
    pub sig: String,
    /// Human-readable detail (expected / actual).
    pub detail: String,
    /// Index of the operation at which it was detected.
    pub step: usize,
}

impl Violation {
    pub fn property(&self) -> &str {
        &self.check[..self.check.find('.').unwrap_or(self.check.len())]
    }
}

fn fnv64(mut h: u64, b: &[u8]) -> u64 {
    for &x in b {
        h ^= x as u64;
        h = h.wrapping_mul(0x0000_0100_0000_01B3);
    }
    h
}

pub const FNV_INIT: u64 = 0xCBF2_9CE4_8422_2325;

pub fn fnv64_of(b: &[u8]) -> u64 {
    fnv64(FNV_INIT, b)
}

pub struct Ctx {
    pub step: usize,
    pub verbose: bool,
    pub lines: Vec<String>,
    pub digest_all: u64,
    pub digest_portable: u64,
    /// Portable lines plus lines that exist only with std + easy-functions.
    pub digest_std: u64,
    pub n_lines: u64,
    pub n_portable: u64,
    pub probes: BTreeMap<&'static str, u64>,
    /// Coarse classes of internal states reached (scenario-defined encoding).
    pub classes: BTreeSet<u64>,
    pub violations: Vec<Violation>,
    /// Set when a run must not continue (e.g. a panic left objects undefined).
    pub aborted: bool,
    scratch: String,
}

impl Ctx {
    pub fn new(verbose: bool) -> Self {
        Ctx {
            step: 0,
            verbose,
            lines: Vec::new(),
            digest_all: FNV_INIT,
            digest_portable: FNV_INIT,
            digest_std: FNV_INIT,
            n_lines: 0,
            n_portable: 0,
            probes: BTreeMap::new(),
            classes: BTreeSet::new(),
            violations: Vec::new(),
            aborted: false,
            scratch: String::new(),
        }
    }

    /// Append an event line.  `portable` lines must be identical in every
    /// build configuration; local lines may differ.
    pub fn ev(&mut self, portable: bool, args: std::fmt::Arguments) {
        self.ev_kind(if portable { 'P' } else { 'L' }, args)
    }

    /// A line that is portable among the configurations that have std and
    /// the easy functions (it does not exist elsewhere).
    pub fn ev_std(&mut self, args: std::fmt::Arguments) {
        self.ev_kind('S', args)
    }

    fn ev_kind(&mut self, kind: char, args: std::fmt::Arguments) {
        let portable = kind == 'P';
        self.scratch.clear();
        let _ = write!(self.scratch, "{}{}|", kind, self.step);
        let _ = self.scratch.write_fmt(args);
        self.digest_all = fnv64(self.digest_all, self.scratch.as_bytes());
        self.digest_all = fnv64(self.digest_all, b"\n");
        self.n_lines += 1;
        if portable {
            self.digest_portable = fnv64(self.digest_portable, self.scratch.as_bytes());
            self.digest_portable = fnv64(self.digest_portable, b"\n");
            self.n_portable += 1;
        }
        if kind != 'L' {
            self.digest_std = fnv64(self.digest_std, self.scratch.as_bytes());
            self.digest_std = fnv64(self.digest_std, b"\n");
        }
        if self.verbose {
            self.lines.push(self.scratch.clone());
        }
    }

    pub fn probe(&mut self, name: &'static str) {
        *self.probes.entry(name).or_insert(0) += 1;
    }
    pub fn probe_n(&mut self, name: &'static str, n: u64) {
        *self.probes.entry(name).or_insert(0) += n;
    }
    pub fn has_probe(&self, name: &str) -> bool {
        self.probes.get(name).copied().unwrap_or(0) > 0
    }

    pub fn fail(&mut self, check: &'static str, sig: impl Into<String>, detail: impl Into<String>) {
        let v = Violation { check, sig: sig.into(), detail: detail.into(), step: self.step };
        if self.verbose {
            self.lines.push(format!("!{}|VIOLATION {} [{}] {}", self.step, v.check, v.sig, v.detail));
        }
        // Keep the list bounded: a broken build can fail at every step.
        if self.violations.len() < 64 {
            self.violations.push(v);
        }
    }
}

pub struct Outcome {
    pub violations: Vec<Violation>,
    pub digest_all: u64,
    pub digest_portable: u64,
    pub digest_std: u64,
    pub n_lines: u64,
    pub n_portable: u64,
    pub probes: BTreeMap<&'static str, u64>,
    pub classes: BTreeSet<u64>,
    pub lines: Vec<String>,
    pub steps: usize,
}

impl Ctx {
    pub fn finish(self) -> Outcome {
        Outcome {
            violations: self.violations,
            digest_all: self.digest_all,
            digest_portable: self.digest_portable,
            digest_std: self.digest_std,
            n_lines: self.n_lines,
            n_portable: self.n_portable,
            probes: self.probes,
            classes: self.classes,
            lines: self.lines,
            steps: self.step,
        }
    }
}

/// Run a closure, converting a panic into `Err(message)`.
pub fn guarded<T>(f: impl FnOnce() -> T) -> Result<T, String> {
    match std::panic::catch_unwind(std::panic::AssertUnwindSafe(f)) {
        Ok(v) => Ok(v),
        Err(e) => {
            let msg = if let Some(s) = e.downcast_ref::<&str>() {
                s.to_string()
            } else if let Some(s) = e.downcast_ref::<String>() {
                s.clone()
            } else {
                "<non-string panic>".to_string()
            };
            Err(msg)
        }
    }
}

/// Abridged description of a byte string for log lines.
pub fn abr(b: &[u8]) -> String {
    format!("{}b#{:016x}", b.len(), fnv64_of(b))
}
