//! S-TGT: reused comparison targets and position arrays (C17; the
//! validity / contract parts belong to C11).

#![allow(deprecated)]

use crate::core::{guarded, Ctx, Outcome};
use crate::json::{hex, unhex, J};
use crate::obj::{collapse, gen_bh, gen_bh_edges};
use crate::rng::Rng;
use ssdeep::internal_comparison::{BlockHashPositionArray, BlockHashPositionArrayData, BlockHashPositionArrayImpl};
use ssdeep::{
    DualFuzzyHash, FuzzyHash, FuzzyHashCompareTarget, LongDualFuzzyHash, LongFuzzyHash, LongRawFuzzyHash,
    RawFuzzyHash,
};

pub const NT: usize = 2;
pub const NP: usize = 2;

pub type Raw = (u8, Vec<u8>, Vec<u8>);

#[derive(Clone, Debug, PartialEq)]
pub enum Op {
    /// Replace the pool by these raw hashes (log block size, bh1, bh2).
    Pool(Vec<Raw>),
    /// (Re-)initialise target `t` from pool member `h`.
    /// via: 0 init_from(&short) 1 init_from(&long) 2 init_from(&dual) 3 init_from(&long dual)
    ///      4 From<&short> 5 From<short> 6 From<&long> 7 From<long> 8 From<&dual> 9 From<dual>
    ///      10 From<&long dual> 11 From<long dual>
    TInit { t: u8, h: u16, via: u8 },
    /// Position array: (re-)build from a string.
    PInit { p: u8, s: Vec<u8> },
    PClear { p: u8 },
}

impl Op {
    pub fn to_json(&self) -> J {
        match self {
            Op::Pool(v) => J::obj(vec![
                ("op", J::s("pool")),
                (
                    "hashes",
                    J::Arr(
                        v.iter()
                            .map(|(l, a, b)| J::obj(vec![("log", J::u(*l as u64)), ("bh1", J::Str(hex(a))), ("bh2", J::Str(hex(b)))]))
                            .collect(),
                    ),
                ),
            ]),
            Op::TInit { t, h, via } => J::obj(vec![
                ("op", J::s("target_init")),
                ("t", J::u(*t as u64)),
                ("h", J::u(*h as u64)),
                ("via", J::u(*via as u64)),
            ]),
            Op::PInit { p, s } => J::obj(vec![("op", J::s("pa_init_from")), ("p", J::u(*p as u64)), ("s", J::Str(hex(s)))]),
            Op::PClear { p } => J::obj(vec![("op", J::s("pa_clear")), ("p", J::u(*p as u64))]),
        }
    }
    pub fn from_json(j: &J) -> Result<Op, String> {
        Ok(match j.gs("op")? {
            "pool" => {
                let mut v = Vec::new();
                for e in j.ga("hashes")? {
                    v.push((e.gu("log")? as u8, unhex(e.gs("bh1")?)?, unhex(e.gs("bh2")?)?));
                }
                Op::Pool(v)
            }
            "target_init" => Op::TInit { t: (j.gu("t")? as usize % NT) as u8, h: j.gu("h")? as u16, via: j.gu("via")? as u8 },
            "pa_init_from" => Op::PInit { p: (j.gu("p")? as usize % NP) as u8, s: unhex(j.gs("s")?)? },
            "pa_clear" => Op::PClear { p: (j.gu("p")? as usize % NP) as u8 },
            o => return Err(format!("bad tgt op {}", o)),
        })
    }
    pub fn simplify(&self) -> Vec<Op> {
        let mut v = Vec::new();
        match self {
            Op::Pool(p) => {
                // shorten block hashes of pool members (indices stay valid)
                for i in 0..p.len() {
                    let (l, a, b) = &p[i];
                    if !b.is_empty() {
                        let mut q = p.clone();
                        q[i] = (*l, a.clone(), Vec::new());
                        v.push(Op::Pool(q));
                    }
                    if a.len() > 1 {
                        let mut q = p.clone();
                        q[i] = (*l, a[..a.len() / 2].to_vec(), b.clone());
                        v.push(Op::Pool(q));
                        let mut q = p.clone();
                        q[i] = (*l, a[..a.len() - 1].to_vec(), b.clone());
                        v.push(Op::Pool(q));
                    }
                    if v.len() > 24 {
                        break;
                    }
                }
                // drop the last member (indices are taken modulo the pool size)
                if p.len() > 1 {
                    v.push(Op::Pool(p[..p.len() - 1].to_vec()));
                }
            }
            Op::TInit { t, h, via } => {
                if *via != 1 {
                    v.push(Op::TInit { t: *t, h: *h, via: 1 });
                }
            }
            Op::PInit { p, s } => {
                if s.len() > 1 {
                    v.push(Op::PInit { p: *p, s: s[..s.len() / 2].to_vec() });
                    v.push(Op::PInit { p: *p, s: s[..s.len() - 1].to_vec() });
                }
            }
            _ => {}
        }
        v
    }
}

/// One pool member in every operand kind it can take.
struct Member {
    raw: Raw,
    norm: Raw,
    ln: LongFuzzyHash,
    ld: LongDualFuzzyHash,
    n: Option<FuzzyHash>,
    d: Option<DualFuzzyHash>,
}

fn materialise(r: &Raw) -> Option<Member> {
    let (l, a, b) = r;
    if *l >= 31 || a.len() > 64 || b.len() > 64 || a.iter().chain(b.iter()).any(|&x| x >= 64) {
        return None;
    }
    let lr = LongRawFuzzyHash::new_from_internals_near_raw(*l, a, b);
    let ln = lr.normalize();
    let ld = LongDualFuzzyHash::from_raw_form(&lr);
    let (n, d) = if b.len() <= 32 {
        let r = RawFuzzyHash::new_from_internals_near_raw(*l, a, b);
        (Some(r.normalize()), Some(DualFuzzyHash::from_raw_form(&r)))
    } else {
        (None, None)
    };
    // what the hash "is" for C17 is what the library's own normalized object
    // says (whether normalization is *right* is not C17's business)
    let norm = (ln.log_block_size(), ln.block_hash_1().to_vec(), ln.block_hash_2().to_vec());
    // The operand kinds of one member must be the *same hash* as far as the
    // library's own accessors tell: if a conversion (raw -> dual, long ->
    // short) lost or changed content, a target built from that operand
    // legitimately differs from one built from `ln` -- a conversion defect
    // (C15), not C17's to report.  Such a member is left out.
    let same = |h: &LongFuzzyHash| h.log_block_size() == norm.0 && h.block_hash_1() == &norm.1[..] && h.block_hash_2() == &norm.2[..];
    if !same(ld.as_normalized()) {
        return None;
    }
    if let (Some(n), Some(d)) = (&n, &d) {
        if !same(&n.to_long_form()) || !same(&d.as_normalized().to_long_form()) {
            return None;
        }
    }
    Some(Member { raw: r.clone(), norm, ln, ld, n, d })
}

struct State {
    pool: Vec<Member>,
    tg: Vec<FuzzyHashCompareTarget>,
    tg_loaded: Vec<Option<usize>>,
    tg_inits: Vec<u32>,
    pa: Vec<BlockHashPositionArray>,
    pa_str: Vec<Vec<u8>>,
    pa_inits: Vec<u32>,
}

pub fn execute(ops: &[Op], verbose: bool) -> Outcome {
    let mut cx = Ctx::new(verbose);
    let mut st = State {
        pool: Vec::new(),
        tg: (0..NT).map(|_| FuzzyHashCompareTarget::new()).collect(),
        tg_loaded: vec![None; NT],
        tg_inits: vec![0; NT],
        pa: (0..NP).map(|_| BlockHashPositionArray::new()).collect(),
        pa_str: vec![Vec::new(); NP],
        pa_inits: vec![0; NP],
    };
    for (i, op) in ops.iter().enumerate() {
        cx.step = i;
        let r = guarded(|| step(&mut cx, &mut st, op));
        if let Err(m) = r {
            // (not attributed to C11: a target that silently still represents an
            // earlier hash is internally valid; what panicked is a query on it)
            cx.fail("C17.no_panic", "step", format!("operation panicked: {}", m));
            break;
        }
    }
    cx.step = ops.len();
    cx.finish()
}

fn show(r: &Raw) -> String {
    const T: &[u8; 64] = b"ABCDEFGHIJKLMNOPQRSTUVWXYZabcdefghijklmnopqrstuvwxyz0123456789+/";
    let f = |b: &[u8]| b.iter().map(|&x| T[(x & 63) as usize] as char).collect::<String>();
    format!("{}:{}:{}", 3u64 << r.0.min(40), f(&r.1), f(&r.2))
}

fn fresh_for(m: &Member) -> FuzzyHashCompareTarget {
    FuzzyHashCompareTarget::from(&m.ln)
}

fn step(cx: &mut Ctx, st: &mut State, op: &Op) {
    match op {
        Op::Pool(v) => {
            // building the pool uses constructors / normalization / dual
            // compression: if any of that panics it is not C17's to report
            st.pool = match guarded(|| v.iter().filter_map(materialise).collect::<Vec<Member>>()) {
                Ok(p) => {
                    let expected = v.iter().filter(|(l, a, b)| *l < 31 && a.len() <= 64 && b.len() <= 64 && a.iter().chain(b.iter()).all(|&x| x < 64)).count();
                    if p.len() < expected {
                        cx.probe("tgt.pool_member_inconsistent_left_out");
                    }
                    p
                }
                Err(_) => {
                    cx.probe("tgt.pool_build_panicked");
                    Vec::new()
                }
            };
            for t in st.tg_loaded.iter_mut() {
                *t = None;
            }
            cx.ev(true, format_args!("pool of {} hashes", st.pool.len()));
        }
        Op::TInit { t, h, via } => {
            if st.pool.is_empty() {
                cx.ev(true, format_args!("target_init skipped (empty pool)"));
                return;
            }
            let ti = *t as usize % NT;
            let hi = *h as usize % st.pool.len();
            tinit(cx, st, ti, hi, *via);
        }
        Op::PInit { p, s } => pinit(cx, st, *p as usize % NP, s),
        Op::PClear { p } => {
            let pi = *p as usize % NP;
            st.pa[pi].clear();
            let prev = std::mem::take(&mut st.pa_str[pi]);
            cx.ev(true, format_args!("pa_clear p{}", pi));
            if !prev.is_empty() {
                cx.probe("pa.clear_dirty");
            }
            let pa = &st.pa[pi];
            if pa.len() != 0 || !pa.is_empty() || !pa.is_valid() || !pa.is_valid_and_normalized() || *pa != BlockHashPositionArray::new() {
                cx.fail("C17.pa_represents", "clear", format!("after clear(): len={} valid={} equal_to_new={}", pa.len(), pa.is_valid(), *pa == BlockHashPositionArray::new()));
            }
            if !pa.is_valid() {
                cx.fail("C11.valid_after_op", "pa_clear", "position array invalid after clear()".to_string());
            }
            if !pa.is_equiv(&[]) || (!prev.is_empty() && pa.is_equiv(&prev)) {
                cx.fail("C17.pa_represents", "clear:is_equiv", "cleared position array is not equivalent to the empty string only".to_string());
            }
        }
    }
}

fn tinit(cx: &mut Ctx, st: &mut State, ti: usize, hi: usize, via: u8) {
    let m = &st.pool[hi];
    let prev = st.tg_loaded[ti];
    // choose an operand kind that exists for this member
    let mut via = via % 12;
    let needs_short = matches!(via, 0 | 2 | 4 | 5 | 8 | 9);
    if needs_short && m.n.is_none() {
        via = match via {
            0 => 1,
            2 => 3,
            4 => 6,
            5 => 7,
            8 => 10,
            _ => 11,
        };
    }
    match via {
        0 => st.tg[ti].init_from(m.n.as_ref().unwrap()),
        1 => st.tg[ti].init_from(&m.ln),
        2 => st.tg[ti].init_from(m.d.as_ref().unwrap()),
        3 => st.tg[ti].init_from(&m.ld),
        4 => st.tg[ti] = FuzzyHashCompareTarget::from(m.n.as_ref().unwrap()),
        5 => st.tg[ti] = FuzzyHashCompareTarget::from(*m.n.as_ref().unwrap()),
        6 => st.tg[ti] = FuzzyHashCompareTarget::from(&m.ln),
        7 => st.tg[ti] = FuzzyHashCompareTarget::from(m.ln),
        8 => st.tg[ti] = FuzzyHashCompareTarget::from(m.d.as_ref().unwrap()),
        9 => st.tg[ti] = FuzzyHashCompareTarget::from(*m.d.as_ref().unwrap()),
        10 => st.tg[ti] = FuzzyHashCompareTarget::from(&m.ld),
        _ => st.tg[ti] = FuzzyHashCompareTarget::from(m.ld),
    }
    st.tg_loaded[ti] = Some(hi);
    st.tg_inits[ti] += 1;
    let in_place = via < 4;
    if in_place {
        cx.probe("tgt.init_from");
        if let Some(p) = prev {
            cx.probe("tgt.reinit");
            let pm = &st.pool[p];
            // would a missing clear be observable?  the previous hash had a
            // (symbol, position) bit that the new one does not have
            let stale = |a: &[u8], b: &[u8]| a.iter().enumerate().any(|(i, &c)| b.get(i) != Some(&c));
            if stale(&pm.norm.1, &m.norm.1) || stale(&pm.norm.2, &m.norm.2) {
                cx.probe("tgt.reinit_stale_bits_possible");
            }
            if pm.norm.1.len() > m.norm.1.len() || pm.norm.2.len() > m.norm.2.len() {
                cx.probe("tgt.reinit_prev_longer");
            }
            if st.tg_inits[ti] >= 3 {
                cx.probe("tgt.reinit>=3");
            }
        }
    } else {
        cx.probe("tgt.from");
    }
    let tg = &st.tg[ti];
    let fresh = fresh_for(m);
    let sig = format!("via{}", via);
    if !tg.is_valid() {
        cx.fail("C11.valid_after_op", format!("target_init:{}", sig), format!("comparison target invalid after initialisation from {}", show(&m.norm)));
        cx.fail("C17.reinit_eq_fresh", format!("invalid:{}", sig), format!("comparison target invalid after initialisation from {}", show(&m.norm)));
    }
    if let Err(e) = guarded(|| format!("{:?}", tg).len()) {
        cx.fail("C11.observers_total", "target:debug", format!("Debug of a comparison target panicked: {}", e));
    }
    if !tg.full_eq(&fresh) {
        cx.fail(
            "C17.reinit_eq_fresh",
            sig.clone(),
            format!(
                "target (re-)initialised from {} (previously {}) is not structurally equal to a fresh one",
                show(&m.norm),
                prev.map(|p| show(&st.pool[p].norm)).unwrap_or_else(|| "nothing".into())
            ),
        );
    }
    // the position-array views of the target represent exactly h's block hashes
    {
        let (v1, v2) = (tg.block_hash_1(), tg.block_hash_2());
        let ok1 = v1.len() as usize == m.norm.1.len() && v1.is_valid_and_normalized() && v1.is_equiv(&m.norm.1);
        let ok2 = v2.len() as usize == m.norm.2.len() && v2.is_valid_and_normalized() && v2.is_equiv(&m.norm.2);
        if !(ok1 && ok2) {
            cx.fail(
                "C17.reinit_eq_fresh",
                format!("views:{}", sig),
                format!("block_hash_1()/block_hash_2() views of the target do not represent {} (bh1 ok: {}, bh2 ok: {})", show(&m.norm), ok1, ok2),
            );
        }
    }
    if tg.log_block_size() != m.norm.0 {
        cx.fail("C17.reinit_eq_fresh", format!("block_size:{}", sig), "target reports a different block size than the hash it was built from".to_string());
    }
    // equivalence to h only
    let mut equiv_bad = None;
    if !tg.is_equiv(&m.ln) || !tg.is_equiv(&m.ld) || m.n.as_ref().map(|x| !tg.is_equiv(x)).unwrap_or(false) || m.d.as_ref().map(|x| !tg.is_equiv(x)).unwrap_or(false) {
        equiv_bad = Some(format!("is_equiv(h) is false for h = {}", show(&m.norm)));
    }
    // answers against every pool member, in every operand kind
    let mut acc: u64 = crate::core::FNV_INIT;
    let mut nonzero = 0u32;
    let mut candidates = 0u32;
    let mut ans_bad: Option<String> = None;
    for (xi, x) in st.pool.iter().enumerate() {
        let differs = x.norm != m.norm;
        if differs && (tg.is_equiv(&x.ln) || x.n.as_ref().map(|h| tg.is_equiv(h)).unwrap_or(false)) && equiv_bad.is_none() {
            equiv_bad = Some(format!("is_equiv({}) is true although the target was built from {}", show(&x.norm), show(&m.norm)));
        }
        let (s1, s2) = (tg.compare(&x.ln), fresh.compare(&x.ln));
        let (c1, c2) = (tg.is_comparison_candidate(&x.ln), fresh.is_comparison_candidate(&x.ln));
        let mut all = vec![(s1, s2, c1, c2, "long")];
        all.push((tg.compare(&x.ld), fresh.compare(&x.ld), tg.is_comparison_candidate(&x.ld), fresh.is_comparison_candidate(&x.ld), "long dual"));
        if let Some(n) = &x.n {
            all.push((tg.compare(n), fresh.compare(n), tg.is_comparison_candidate(n), fresh.is_comparison_candidate(n), "short"));
        }
        if let Some(d) = &x.d {
            all.push((tg.compare(d), fresh.compare(d), tg.is_comparison_candidate(d), fresh.is_comparison_candidate(d), "short dual"));
        }
        for (a, b, ca, cb, kind) in &all {
            if (a != b || ca != cb) && ans_bad.is_none() {
                ans_bad = Some(format!(
                    "against pool[{}]={} ({} operand): reused target says score {} candidate {}, fresh target says score {} candidate {}",
                    xi,
                    show(&x.norm),
                    kind,
                    a,
                    ca,
                    b,
                    cb
                ));
            }
        }
        if s2 > 0 {
            nonzero += 1;
        }
        if c2 {
            candidates += 1;
        }
        acc = (acc ^ (s1 as u64 + ((c1 as u64) << 8))).wrapping_mul(0x0000_0100_0000_01B3);
        unchecked_twin(cx, tg, m, x, differs);
    }
    if nonzero > 1 {
        cx.probe("tgt.nonzero_scores_beyond_self");
    }
    if candidates > 0 {
        cx.probe("tgt.candidates");
    }
    if let Some(d) = equiv_bad {
        cx.fail("C17.equiv_only_h", sig.clone(), d);
    }
    if let Some(d) = ans_bad {
        cx.fail("C17.answers_eq_fresh", sig, d);
    }
    cx.ev(true, format_args!("target_init t{} <- pool[{}] {} via{} scores#{:016x} nz={} cand={}", ti, hi, show(&m.norm), via, acc, nonzero, candidates));
}

#[cfg(feature = "f-unchecked")]
fn unchecked_twin(cx: &mut Ctx, tg: &FuzzyHashCompareTarget, m: &Member, x: &Member, differs: bool) {
    use ssdeep::BlockSizeRelation;
    let rel0 = ssdeep::block_size::compare_sizes(tg.log_block_size(), x.norm.0);
    // compare_near_eq_unchecked: the only contract is the NearEq relation of
    // the block sizes; identical hashes are allowed
    if rel0 == BlockSizeRelation::NearEq {
        let checked = tg.compare(&x.ln);
        let near = tg.compare_near_eq(&x.ln);
        let un = unsafe { tg.compare_near_eq_unchecked(&x.ln) };
        cx.probe("c14.unchecked_near_eq_twin");
        if !differs {
            cx.probe("c14.unchecked_near_eq_twin_identical");
        }
        if checked != un || checked != near {
            cx.fail(
                "C14.unchecked_eq_checked",
                "compare_near_eq",
                format!("compare()={} compare_near_eq()={} compare_near_eq_unchecked()={} against {}", checked, near, un, show(&x.norm)),
            );
        }
    }
    // the static helpers and the block-size conversions, on in-contract arguments
    // derived from this pair
    {
        let (l, r) = (x.norm.1.len() as u8, x.norm.2.len() as u8);
        let (l, r) = (l.clamp(7, 64), r.clamp(7, 64));
        let ed = ((x.norm.1.iter().map(|&v| v as u32).sum::<u32>()) % (l as u32 + r as u32 - 13)).min(l as u32 + r as u32 - 14);
        let a = FuzzyHashCompareTarget::raw_score_by_edit_distance(l, r, ed);
        let b = unsafe { FuzzyHashCompareTarget::raw_score_by_edit_distance_unchecked(l, r, ed) };
        if a != b {
            cx.fail("C14.unchecked_eq_checked", "raw_score_by_edit_distance", format!("({}, {}, {}): checked {} unchecked {}", l, r, ed, a, b));
        }
        let lg = x.norm.0;
        if lg < FuzzyHashCompareTarget::LOG_BLOCK_SIZE_CAPPING_BORDER {
            let a = FuzzyHashCompareTarget::score_cap_on_block_hash_comparison(lg, l, r);
            let b = unsafe { FuzzyHashCompareTarget::score_cap_on_block_hash_comparison_unchecked(lg, l, r) };
            if a != b {
                cx.fail("C14.unchecked_eq_checked", "score_cap_on_block_hash_comparison", format!("({}, {}, {}): checked {} unchecked {}", lg, l, r, a, b));
            }
        }
        if let Some(bs) = ssdeep::block_size::from_log(lg) {
            let bu = unsafe { ssdeep::block_size::from_log_unchecked(lg) };
            let back = ssdeep::block_size::log_from_valid(bs);
            let backu = unsafe { ssdeep::block_size::log_from_valid_unchecked(bs) };
            if bs != bu || back != lg || backu != lg {
                cx.fail(
                    "C14.unchecked_eq_checked",
                    "block_size",
                    format!("log {}: from_log {} from_log_unchecked {} log_from_valid {} log_from_valid_unchecked {}", lg, bs, bu, back, backu),
                );
            }
        }
        cx.probe("c14.unchecked_static_twin");
    }
    // contract of compare_unequal*: the two hashes are different -- judged by
    // what the target itself says it holds, so that a target that wrongly
    // still represents another hash does not make *this harness* break the
    // contract (that defect is C17's to report, through its own checks)
    if !differs || tg.is_equiv(&x.ln) {
        return;
    }
    // the hash-level entry point (contract: the two hashes are different)
    {
        let hc = m.ln.compare(&x.ln);
        let hu = unsafe { m.ln.compare_unequal_unchecked(&x.ln) };
        if hc != hu {
            cx.fail(
                "C14.unchecked_eq_checked",
                "hash.compare_unequal",
                format!("{}.compare({}) = {} but compare_unequal_unchecked = {}", show(&m.norm), show(&x.norm), hc, hu),
            );
        }
    }
    let checked = tg.compare(&x.ln);
    let un = unsafe { tg.compare_unequal_unchecked(&x.ln) };
    let slow = tg.compare_unequal(&x.ln);
    cx.probe("c14.unchecked_compare_twin");
    if checked != un || checked != slow {
        cx.fail(
            "C14.unchecked_eq_checked",
            "compare_unequal",
            format!("compare()={} compare_unequal()={} compare_unequal_unchecked()={} against {}", checked, slow, un, show(&x.norm)),
        );
    }
    let rel = ssdeep::block_size::compare_sizes(tg.log_block_size(), x.norm.0);
    let cand = tg.is_comparison_candidate(&x.ln);
    let (un_c, un_s) = unsafe {
        match rel {
            BlockSizeRelation::NearEq => (Some(tg.is_comparison_candidate_near_eq_unchecked(&x.ln)), Some(tg.compare_unequal_near_eq_unchecked(&x.ln))),
            BlockSizeRelation::NearLt => (Some(tg.is_comparison_candidate_near_lt_unchecked(&x.ln)), Some(tg.compare_unequal_near_lt_unchecked(&x.ln))),
            BlockSizeRelation::NearGt => (Some(tg.is_comparison_candidate_near_gt_unchecked(&x.ln)), Some(tg.compare_unequal_near_gt_unchecked(&x.ln))),
            BlockSizeRelation::Far => (None, None),
        }
    };
    if let (Some(c), Some(s)) = (un_c, un_s) {
        if c != cand || s != checked {
            cx.fail(
                "C14.unchecked_eq_checked",
                "near_variants",
                format!("relation {:?}: checked candidate {} score {}, unchecked candidate {} score {}", rel, cand, checked, c, s),
            );
        }
    }
}

#[cfg(not(feature = "f-unchecked"))]
fn unchecked_twin(_cx: &mut Ctx, _tg: &FuzzyHashCompareTarget, _m: &Member, _x: &Member, _differs: bool) {}

fn has_long_run(b: &[u8]) -> bool {
    collapse(b).len() != b.len()
}

fn pinit(cx: &mut Ctx, st: &mut State, pi: usize, s: &[u8]) {
    let in_contract = s.len() <= 64 && s.iter().all(|&x| x < 64);
    let prev = st.pa_str[pi].clone();
    if !in_contract {
        // The documentation lists usage constraints but promises neither a
        // panic nor exception safety.  What C11 demands is only that no
        // *corrupted object is returned*: if the call returns, the array must
        // be valid, and the slot is re-created.  If the call panics, nothing is
        // demanded of the array as it is left -- but it stays in use: the next
        // `init_from` / `clear` must make it indistinguishable from a fresh one
        // again (C17: nothing is carried over, also not from a refused call).
        cx.probe("pa.init_out_of_contract");
        let pa = &mut st.pa[pi];
        let r = guarded(|| pa.init_from(s));
        cx.ev(false, format_args!("pa_init_from p{} out-of-contract len={} -> {}", pi, s.len(), if r.is_err() { "refused" } else { "returned" }));
        if r.is_ok() {
            cx.probe("pa.init_out_of_contract_returned");
            if !st.pa[pi].is_valid() {
                cx.fail(
                    "C11.ctor_contract",
                    "pa_init_from:returned_invalid",
                    format!("BlockHashPositionArray::init_from returned an invalid array on out-of-contract input (len {}, max symbol {:?})", s.len(), s.iter().max()),
                );
            }
        }
        if r.is_ok() {
            st.pa[pi] = BlockHashPositionArray::new();
        } else {
            cx.probe("pa.kept_after_refused_init");
        }
        st.pa_str[pi].clear();
        return;
    }
    st.pa[pi].init_from(s);
    st.pa_str[pi] = s.to_vec();
    st.pa_inits[pi] += 1;
    cx.probe("pa.init_from");
    if !prev.is_empty() {
        cx.probe("pa.reinit");
        if prev.len() > s.len() {
            cx.probe("pa.reinit_prev_longer");
        }
    }
    let pa = &st.pa[pi];
    let mut fresh = BlockHashPositionArray::new();
    fresh.init_from(s);
    if !pa.is_valid() {
        cx.fail("C11.valid_after_op", "pa_init_from", format!("position array invalid after init_from({:?})", s));
    }
    if *pa != fresh {
        cx.fail("C17.pa_reinit_eq_fresh", "init_from", format!("position array rebuilt from {:?} (previously {:?}) differs from a fresh one", s, prev));
    }
    let norm = !has_long_run(s);
    if pa.len() as usize != s.len() || pa.is_empty() != s.is_empty() || !pa.is_valid() || pa.is_valid_and_normalized() != norm {
        cx.fail(
            "C17.pa_represents",
            "len/valid/normalized",
            format!("built from {:?}: len()={} is_valid()={} is_valid_and_normalized()={} (string normalized: {})", s, pa.len(), pa.is_valid(), pa.is_valid_and_normalized(), norm),
        );
        return;
    }
    // equivalence test against the string, the previous string and near misses
    let mut tests: Vec<Vec<u8>> = vec![s.to_vec(), prev.clone()];
    if !s.is_empty() {
        let mut t = s.to_vec();
        let k = s.len() / 2;
        t[k] = (t[k] + 1) % 64;
        tests.push(t);
        tests.push(s[..s.len() - 1].to_vec());
        let mut t = s.to_vec();
        t[0] = (t[0] + 63) % 64;
        tests.push(t);
    }
    if s.len() < 64 {
        let mut t = s.to_vec();
        t.push(s.last().copied().unwrap_or(0));
        tests.push(t);
        let mut t = s.to_vec();
        t.push(0);
        tests.push(t);
    }
    for t in &tests {
        if pa.is_equiv(t) != (t.as_slice() == s) {
            cx.fail(
                "C17.pa_represents",
                "is_equiv",
                format!("built from {:?}: is_equiv({:?}) = {}", s, t, pa.is_equiv(t)),
            );
            break;
        }
    }
    // string functions: rebuilt vs fresh
    let mut acc: u64 = crate::core::FNV_INIT;
    for t in &tests {
        let (a, b) = (pa.has_common_substring(t), fresh.has_common_substring(t));
        let (d1, d2) = (pa.edit_distance(t), fresh.edit_distance(t));
        if a != b || d1 != d2 {
            cx.fail("C17.answers_eq_fresh", "pa", format!("rebuilt array answers ({}, {}) but a fresh one ({}, {}) for {:?}", a, d1, b, d2, t));
            break;
        }
        if norm {
            let (r1, r2) = (pa.score_strings_raw(t), fresh.score_strings_raw(t));
            if r1 != r2 {
                cx.fail("C17.answers_eq_fresh", "pa:score", format!("rebuilt array scores {} but a fresh one {} for {:?}", r1, r2, t));
                break;
            }
            acc = (acc ^ r1 as u64).wrapping_mul(0x0000_0100_0000_01B3);
        }
        acc = (acc ^ (d1 as u64 + ((a as u64) << 16))).wrapping_mul(0x0000_0100_0000_01B3);
    }
    cx.ev(true, format_args!("pa_init_from p{} len={} norm={} answers#{:016x}", pi, s.len(), norm, acc));
}

// ---------------------------------------------------------------------------
// Generation

fn mutate_bh(rng: &mut Rng, base: &[u8], cap: usize) -> Vec<u8> {
    let mut v = base.to_vec();
    match rng.below(9) {
        0 => {}
        1 => {
            // a few substitutions
            for _ in 0..rng.range(1, 4) {
                if !v.is_empty() {
                    let p = rng.usize_below(v.len());
                    v[p] = rng.below(64) as u8;
                }
            }
        }
        2 => {
            // rotation
            if !v.is_empty() {
                let k = rng.usize_below(v.len());
                v.rotate_left(k);
            }
        }
        3 => {
            // prefix
            let k = rng.usize_below(v.len() + 1);
            v.truncate(k);
        }
        4 => {
            // suffix
            let k = rng.usize_below(v.len() + 1);
            v.drain(..k);
        }
        5 => {
            // insertions / deletions
            for _ in 0..rng.range(1, 5) {
                if rng.chance(1, 2) && !v.is_empty() {
                    let p = rng.usize_below(v.len());
                    v.remove(p);
                } else if v.len() < cap {
                    let p = rng.usize_below(v.len() + 1);
                    v.insert(p, rng.below(64) as u8);
                }
            }
        }
        6 => {
            // symbol 0 ('A') tail
            let k = rng.range(1, 6) as usize;
            for _ in 0..k {
                if v.len() < cap {
                    v.push(0);
                }
            }
        }
        7 => {
            // keep one 7-gram, randomise the rest
            if v.len() >= 7 {
                let p = rng.usize_below(v.len() - 6);
                let keep: Vec<u8> = v[p..p + 7].to_vec();
                let mut w = gen_bh(rng, cap, false);
                if w.len() < 7 {
                    w = keep.clone();
                } else {
                    let q = rng.usize_below(w.len() - 6);
                    w[q..q + 7].copy_from_slice(&keep);
                }
                v = w;
            }
        }
        _ => v = gen_bh(rng, cap, false),
    }
    v.truncate(cap);
    v
}

fn gen_pool(rng: &mut Rng) -> Vec<Raw> {
    let n = rng.range(4, 22) as usize;
    let base_log = rng.below(31) as u8;
    let long = rng.chance(1, 3);
    let cap_b = if long { 64 } else { 32 };
    // one run in four: block hashes at full capacity, normalized, with runs
    // touching both ends (bit 0 / bit 63 of the position masks)
    let edges = rng.chance(1, 4);
    let l1 = *rng.pick(&[64usize, 64, 63]);
    let l2 = *rng.pick(&[cap_b, cap_b, cap_b - 1]);
    let base1 = if edges { gen_bh_edges(rng, l1) } else { gen_bh(rng, 64, false) };
    let base2 = if edges { gen_bh_edges(rng, l2) } else { gen_bh(rng, cap_b, false) };
    let mut pool: Vec<Raw> = Vec::new();
    pool.push((base_log, base1.clone(), base2.clone()));
    while pool.len() < n {
        let src = pool[rng.usize_below(pool.len())].clone();
        let log = match rng.below(8) {
            0 => src.0.saturating_sub(1),
            1 => (src.0 + 1).min(30),
            2 => rng.below(31) as u8,
            3 => (src.0 + 2).min(30),
            _ => src.0,
        };
        // cross: bh2 of the source at log becomes bh1 at log+1, and vice versa
        let (a, b) = if log == src.0 && rng.chance(1, 4) {
            // same block size, one block hash shared with the source, or the
            // two block hashes of the new member identical
            match rng.below(4) {
                0 => (src.1.clone(), mutate_bh(rng, &src.2, cap_b)),
                1 => (mutate_bh(rng, &src.1, 64), src.2.clone()),
                2 => (src.1.clone(), { let mut x = src.1.clone(); x.truncate(cap_b); x }),
                _ => (src.2.clone(), src.2.clone()),
            }
        } else if log == (src.0 + 1).min(30) && rng.chance(1, 2) {
            (src.2.clone(), mutate_bh(rng, &src.2, cap_b))
        } else if log + 1 == src.0 && rng.chance(1, 2) {
            (mutate_bh(rng, &src.1, 64), { let mut x = src.1.clone(); x.truncate(cap_b); x })
        } else {
            (mutate_bh(rng, &src.1, 64), mutate_bh(rng, &src.2, cap_b))
        };
        pool.push((log, a, b));
    }
    pool
}

pub fn generate(seed: u64) -> Vec<Op> {
    let mut rng = Rng::new(seed);
    let mut ops = Vec::new();
    let pool = gen_pool(&mut rng);
    let n = pool.len();
    let pool_strings: Vec<Vec<u8>> = pool.iter().flat_map(|(_, a, b)| vec![a.clone(), b.clone()]).collect();
    ops.push(Op::Pool(pool));
    let style = rng.below(4);
    match style {
        0 => {
            // the minimal history that can show a missing clear: ordered pairs
            let k = n.min(8);
            for i in 0..k {
                for j in 0..k {
                    if ops.len() > 70 {
                        break;
                    }
                    let t = rng.below(NT as u64) as u8;
                    ops.push(Op::TInit { t, h: i as u16, via: rng.below(4) as u8 });
                    ops.push(Op::TInit { t, h: j as u16, via: rng.below(4) as u8 });
                }
            }
        }
        _ => {
            let len = rng.range(5, 50);
            for _ in 0..len {
                match rng.below(10) {
                    0..=5 => ops.push(Op::TInit {
                        t: rng.below(NT as u64) as u8,
                        h: rng.below(n as u64) as u16,
                        via: if rng.chance(3, 4) { rng.below(4) as u8 } else { rng.below(12) as u8 },
                    }),
                    6..=8 => {
                        let s = if rng.chance(2, 3) {
                            let base = rng.pick(&pool_strings).clone();
                            if rng.chance(1, 2) {
                                base
                            } else {
                                mutate_bh(&mut rng, &base, 64)
                            }
                        } else if rng.chance(1, 6) {
                            // out of contract
                            let mut s = gen_bh(&mut rng, 64, false);
                            if rng.chance(1, 2) {
                                // too long, every symbol in range: just over the
                                // capacity, or around the places where a narrowed
                                // length would wrap (u8, u16)
                                let target = match rng.below(6) {
                                    0 | 1 => 65 + rng.usize_below(64),
                                    2 => 255 + rng.usize_below(3),
                                    3 => 256 + rng.usize_below(65),
                                    4 => 256 * (1 + rng.usize_below(4)) + rng.usize_below(65),
                                    _ => 65536 + rng.usize_below(65),
                                };
                                while s.len() < target {
                                    s.push((s.len() % 64) as u8);
                                }
                            } else {
                                if s.is_empty() {
                                    s.push(0);
                                }
                                let p = rng.usize_below(s.len());
                                s[p] = *rng.pick(&[64u8, 65, 100, 255]);
                            }
                            s
                        } else if rng.chance(1, 3) {
                            let l = *rng.pick(&[64usize, 64, 63, 33, 32]);
                            gen_bh_edges(&mut rng, l)
                        } else {
                            gen_bh(&mut rng, 64, false)
                        };
                        ops.push(Op::PInit { p: rng.below(NP as u64) as u8, s });
                    }
                    _ => ops.push(Op::PClear { p: rng.below(NP as u64) as u8 }),
                }
            }
        }
    }
    ops
}
