//! The I/O world: a scripted `Read` implementation and (through hook H1) a
//! scripted file.  The simulator owns every outcome of `open`, `metadata` and
//! `read`.

#![cfg(feature = "std-easy")]

use crate::json::J;
use std::io::{self, ErrorKind, Read};

/// Every stable `io::ErrorKind` (rustc 1.95), by name.
pub const KINDS: &[(&str, ErrorKind)] = &[
    ("NotFound", ErrorKind::NotFound),
    ("PermissionDenied", ErrorKind::PermissionDenied),
    ("ConnectionRefused", ErrorKind::ConnectionRefused),
    ("ConnectionReset", ErrorKind::ConnectionReset),
    ("HostUnreachable", ErrorKind::HostUnreachable),
    ("NetworkUnreachable", ErrorKind::NetworkUnreachable),
    ("ConnectionAborted", ErrorKind::ConnectionAborted),
    ("NotConnected", ErrorKind::NotConnected),
    ("AddrInUse", ErrorKind::AddrInUse),
    ("AddrNotAvailable", ErrorKind::AddrNotAvailable),
    ("NetworkDown", ErrorKind::NetworkDown),
    ("BrokenPipe", ErrorKind::BrokenPipe),
    ("AlreadyExists", ErrorKind::AlreadyExists),
    ("WouldBlock", ErrorKind::WouldBlock),
    ("NotADirectory", ErrorKind::NotADirectory),
    ("IsADirectory", ErrorKind::IsADirectory),
    ("DirectoryNotEmpty", ErrorKind::DirectoryNotEmpty),
    ("ReadOnlyFilesystem", ErrorKind::ReadOnlyFilesystem),
    ("StaleNetworkFileHandle", ErrorKind::StaleNetworkFileHandle),
    ("InvalidInput", ErrorKind::InvalidInput),
    ("InvalidData", ErrorKind::InvalidData),
    ("TimedOut", ErrorKind::TimedOut),
    ("WriteZero", ErrorKind::WriteZero),
    ("StorageFull", ErrorKind::StorageFull),
    ("NotSeekable", ErrorKind::NotSeekable),
    ("QuotaExceeded", ErrorKind::QuotaExceeded),
    ("FileTooLarge", ErrorKind::FileTooLarge),
    ("ResourceBusy", ErrorKind::ResourceBusy),
    ("ExecutableFileBusy", ErrorKind::ExecutableFileBusy),
    ("Deadlock", ErrorKind::Deadlock),
    ("CrossesDevices", ErrorKind::CrossesDevices),
    ("TooManyLinks", ErrorKind::TooManyLinks),
    ("InvalidFilename", ErrorKind::InvalidFilename),
    ("ArgumentListTooLong", ErrorKind::ArgumentListTooLong),
    ("Interrupted", ErrorKind::Interrupted),
    ("Unsupported", ErrorKind::Unsupported),
    ("UnexpectedEof", ErrorKind::UnexpectedEof),
    ("OutOfMemory", ErrorKind::OutOfMemory),
    ("Other", ErrorKind::Other),
];

/// Kinds that generic I/O code likes to special-case.
pub const SPECIAL_KINDS: &[&str] = &["Interrupted", "WouldBlock", "TimedOut", "UnexpectedEof"];
/// Raw OS errors used: EINTR, EIO, ENOSPC, EAGAIN, ENOENT, EISDIR.
pub const OS_CODES: &[i32] = &[4, 5, 28, 11, 2, 21];

/// How an injected error is constructed.
#[derive(Clone, Debug, PartialEq)]
pub enum ErrSpec {
    /// `io::Error::from(kind)`
    Simple(String),
    /// `io::Error::new(kind, "sim:<kind>")` (custom payload)
    Custom(String),
    /// `io::Error::from_raw_os_error(code)`
    Os(i32),
}

impl ErrSpec {
    pub fn kind(&self) -> ErrorKind {
        match self {
            ErrSpec::Simple(n) | ErrSpec::Custom(n) => {
                KINDS.iter().find(|(k, _)| k == n).map(|x| x.1).unwrap_or(ErrorKind::Other)
            }
            ErrSpec::Os(c) => io::Error::from_raw_os_error(*c).kind(),
        }
    }
    pub fn make(&self) -> io::Error {
        match self {
            ErrSpec::Simple(_) => io::Error::from(self.kind()),
            ErrSpec::Custom(n) => io::Error::new(self.kind(), format!("sim:{}", n)),
            ErrSpec::Os(c) => io::Error::from_raw_os_error(*c),
        }
    }
    pub fn raw_os(&self) -> Option<i32> {
        match self {
            ErrSpec::Os(c) => Some(*c),
            _ => None,
        }
    }
    pub fn name(&self) -> String {
        match self {
            ErrSpec::Simple(n) => n.clone(),
            ErrSpec::Custom(n) => format!("custom:{}", n),
            ErrSpec::Os(c) => format!("os:{}", c),
        }
    }
    pub fn to_json(&self) -> J {
        J::Str(self.name())
    }
    pub fn from_json(j: &J) -> Result<ErrSpec, String> {
        let s = j.str_().ok_or("errspec: not a string")?;
        if let Some(c) = s.strip_prefix("os:") {
            return c.parse::<i32>().map(ErrSpec::Os).map_err(|e| e.to_string());
        }
        if let Some(n) = s.strip_prefix("custom:") {
            return Ok(ErrSpec::Custom(n.to_string()));
        }
        Ok(ErrSpec::Simple(s.to_string()))
    }
    /// Does a returned error match this injected one?
    pub fn matches(&self, e: &io::Error) -> bool {
        e.kind() == self.kind() && e.raw_os_error() == self.raw_os()
    }
}

/// One scripted outcome of a `read` call.
#[derive(Clone, Debug, PartialEq)]
pub enum REv {
    /// Deliver up to n bytes (clipped to the buffer and to what is left).
    Deliver(u32),
    /// Return an error.
    Fail(ErrSpec),
    /// Return `Ok(0)` although data may be left (truncated stream).
    Eof,
    /// A legal but unusual reader: inside `read` it first hashes something
    /// else through `ssdeep::hash_stream` on the same thread (an
    /// archive-style reader fingerprinting a member), then delivers n bytes.
    Reenter(u32),
    /// The reader itself panics inside `read` (a bug in the caller's reader,
    /// contained by the caller with `catch_unwind`).  Nothing is demanded of
    /// the call that is unwound; what is checked is that later calls on the
    /// same thread are unaffected.
    Panic,
}

/// Message of the scripted reader panic.
pub const READER_PANIC: &str = "sim: scripted reader panic";

impl REv {
    pub fn to_json(&self) -> J {
        match self {
            REv::Deliver(n) => J::u(*n as u64),
            REv::Fail(e) => J::obj(vec![("fail", e.to_json())]),
            REv::Eof => J::s("eof"),
            REv::Reenter(n) => J::obj(vec![("reenter", J::u(*n as u64))]),
            REv::Panic => J::s("panic"),
        }
    }
    pub fn from_json(j: &J) -> Result<REv, String> {
        match j {
            J::Int(_) => Ok(REv::Deliver(j.u64_().ok_or("bad deliver")? as u32)),
            J::Str(s) if s == "eof" => Ok(REv::Eof),
            J::Str(s) if s == "panic" => Ok(REv::Panic),
            J::Obj(_) if j.get("reenter").is_some() => Ok(REv::Reenter(j.gu("reenter")? as u32)),
            J::Obj(_) => Ok(REv::Fail(ErrSpec::from_json(j.get("fail").ok_or("bad fail")?)?)),
            _ => Err("bad read event".into()),
        }
    }
}

/// What a reader did, for the oracle.
#[derive(Default, Clone, Debug)]
pub struct ReadTrace {
    /// Number of `read` calls made.
    pub calls: usize,
    /// Bytes delivered before the first terminal event.
    pub delivered: usize,
    /// The first terminal event: Some(Ok(())) = EOF seen, Some(Err(spec)) = error returned.
    pub terminal: Option<Result<(), ErrSpec>>,
    /// Read index of the terminal event.
    pub terminal_at: usize,
    /// Number of reads after the terminal event (a retry!).
    pub reads_after_terminal: usize,
    /// Largest buffer offered.
    pub max_buf: usize,
    /// Bytes in flight (delivered) when the error fired.
    pub inflight_at_fault: usize,
    /// Deliveries clipped because the request exceeded the buffer.
    pub clipped: usize,
    /// Chunk sizes actually delivered (the twin generator is fed the same way).
    pub chunks: Vec<usize>,
    /// Number of nested hash_stream calls made from inside `read`.
    pub reentered: usize,
    /// Reads that offered an empty buffer (they return Ok(0) without meaning EOF).
    pub empty_buffer_reads: usize,
}

/// A scripted reader over a byte string.
///
/// * events are consumed one per `read` call;
/// * after the script is exhausted the rest of the data is delivered in
///   full-buffer reads, then `Ok(0)`;
/// * after the first terminal event (error or EOF) a *sticky* reader repeats
///   it; a non-sticky one continues with the script (so that a retrying
///   implementation produces a wrong result instead of hanging);
/// * a hard cap on calls turns a runaway loop into `Err` + `runaway` flag.
pub struct SimReader<'a> {
    pub data: &'a [u8],
    pub pos: usize,
    pub script: &'a [REv],
    pub idx: usize,
    pub scribble: bool,
    pub sticky: bool,
    pub trace: ReadTrace,
    pub cap: usize,
    pub runaway: bool,
    /// After the script is exhausted deliveries are capped to this many
    /// bytes per read (0 = unlimited): a byte-at-a-time style reader for the
    /// whole stream without a script of that length.
    pub tail: u32,
}

impl<'a> SimReader<'a> {
    pub fn with_tail(mut self, tail: u32) -> Self {
        self.tail = tail;
        let _ = tail;
        self
    }
    pub fn new(data: &'a [u8], script: &'a [REv], scribble: bool, sticky: bool) -> Self {
        SimReader {
            tail: 0,
            data,
            pos: 0,
            script,
            idx: 0,
            scribble,
            sticky,
            trace: ReadTrace::default(),
            // any reader loop that makes progress needs at most one call per byte
            cap: script.len() + data.len() + 64,
            runaway: false,
        }
    }
    fn terminal(&mut self, t: Result<(), ErrSpec>) {
        if self.trace.terminal.is_none() {
            self.trace.terminal_at = self.trace.calls - 1;
            self.trace.inflight_at_fault = self.trace.delivered;
            self.trace.terminal = Some(t);
        }
    }
}

impl Read for SimReader<'_> {
    fn read(&mut self, buf: &mut [u8]) -> io::Result<usize> {
        self.trace.calls += 1;
        self.trace.max_buf = self.trace.max_buf.max(buf.len());
        if self.trace.calls > self.cap {
            self.runaway = true;
            return Err(io::Error::new(ErrorKind::Other, "sim: runaway read loop"));
        }
        if let Some(t) = self.trace.terminal.clone() {
            self.trace.reads_after_terminal += 1;
            if self.sticky {
                return match t {
                    Ok(()) => Ok(0),
                    Err(e) => Err(e.make()),
                };
            }
        }
        let ev = if self.idx < self.script.len() {
            let e = self.script[self.idx].clone();
            self.idx += 1;
            e
        } else if self.tail > 0 {
            REv::Deliver(self.tail)
        } else {
            REv::Deliver(u32::MAX)
        };
        let ev = match ev {
            REv::Reenter(n) => {
                // nested use of the library from inside a read callback
                let inner: [u8; 64] = [0x5a; 64];
                let mut r: &[u8] = &inner[..];
                let _ = ssdeep::hash_stream(&mut r);
                self.trace.reentered += 1;
                REv::Deliver(n)
            }
            e => e,
        };
        match ev {
            REv::Reenter(_) => unreachable!(),
            REv::Panic => panic!("{}", READER_PANIC),
            REv::Deliver(n) => {
                let left = self.data.len() - self.pos;
                let mut k = (n as usize).min(left);
                if k > buf.len() {
                    k = buf.len();
                    if n != u32::MAX {
                        self.trace.clipped += 1;
                    }
                }
                if (n as usize) > buf.len() && left > buf.len() {
                    // request larger than buffer: counted above
                }
                buf[..k].copy_from_slice(&self.data[self.pos..self.pos + k]);
                if self.scribble {
                    // Legal for a reader: the part of the buffer beyond the
                    // count returned is unspecified.
                    for (i, b) in buf[k..].iter_mut().enumerate() {
                        *b = 0xA5 ^ (i as u8).wrapping_mul(31);
                    }
                }
                self.pos += k;
                if k == 0 && buf.is_empty() {
                    // Ok(0) for an empty buffer says nothing about the end of the stream
                    self.trace.empty_buffer_reads += 1;
                } else if k == 0 {
                    self.terminal(Ok(()));
                } else if self.trace.terminal.is_none() {
                    self.trace.delivered += k;
                    self.trace.chunks.push(k);
                }
                Ok(k)
            }
            REv::Fail(e) => {
                self.terminal(Err(e.clone()));
                Err(e.make())
            }
            REv::Eof => {
                self.terminal(Ok(()));
                Ok(0)
            }
        }
    }
}

/// A scripted file for hook H1.
#[derive(Clone, Debug, PartialEq)]
pub struct FileSpec {
    pub open: Result<(), ErrSpec>,
    pub meta: Result<u64, ErrSpec>,
    pub script: Vec<REv>,
    pub scribble: bool,
    pub sticky: bool,
    pub tail: u32,
}

impl FileSpec {
    pub fn to_json(&self) -> J {
        J::obj(vec![
            ("open", match &self.open { Ok(()) => J::Null, Err(e) => e.to_json() }),
            ("meta", match &self.meta { Ok(n) => J::u(*n), Err(e) => e.to_json() }),
            ("script", J::Arr(self.script.iter().map(|e| e.to_json()).collect())),
            ("scribble", J::Bool(self.scribble)),
            ("sticky", J::Bool(self.sticky)),
            ("tail", J::u(self.tail as u64)),
        ])
    }
    pub fn from_json(j: &J) -> Result<FileSpec, String> {
        let open = match j.get("open") {
            Some(J::Null) | None => Ok(()),
            Some(e) => Err(ErrSpec::from_json(e)?),
        };
        let meta = match j.get("meta") {
            Some(J::Int(_)) => Ok(j.gu("meta")?),
            Some(e) => Err(ErrSpec::from_json(e)?),
            None => return Err("filespec: meta missing".into()),
        };
        let mut script = Vec::new();
        for e in j.ga("script")? {
            script.push(REv::from_json(e)?);
        }
        Ok(FileSpec {
            open,
            meta,
            script,
            scribble: j.gb("scribble")?,
            sticky: j.gb("sticky")?,
            tail: j.get("tail").and_then(|x| x.u64_()).unwrap_or(0) as u32,
        })
    }
}

/// Result of running the real `hash_file` body against a scripted file.
pub struct FileRun {
    pub result: Result<ssdeep::RawFuzzyHash, ssdeep::GeneratorOrIOError>,
    pub opened: bool,
    pub meta_queried: bool,
    pub trace: ReadTrace,
    pub runaway: bool,
    /// Set if `hash_file` panicked (the result is then a placeholder error).
    pub panic: Option<String>,
}

/// Execute `ssdeep::hash_file` (the real function body) over `spec` + `data`.
pub fn run_hash_file(data: &[u8], spec: &FileSpec) -> FileRun {
    use std::cell::RefCell;
    use std::rc::Rc;
    struct Shared {
        trace: ReadTrace,
        runaway: bool,
        opened: bool,
        meta_queried: bool,
    }
    struct SimF {
        data: Vec<u8>,
        spec: FileSpec,
        // Reader state is kept here by value; trace is copied out on drop.
        pos: usize,
        idx: usize,
        trace: ReadTrace,
        runaway: bool,
        shared: Rc<RefCell<Shared>>,
    }
    impl ssdeep::verif_hooks::SimFile for SimF {
        fn metadata_len(&self) -> io::Result<u64> {
            self.shared.borrow_mut().meta_queried = true;
            match &self.spec.meta {
                Ok(n) => Ok(*n),
                Err(e) => Err(e.make()),
            }
        }
        fn read(&mut self, buf: &mut [u8]) -> io::Result<usize> {
            let script = std::mem::take(&mut self.spec.script);
            let r = {
                let mut rd = SimReader {
                    data: &self.data,
                    pos: self.pos,
                    script: &script,
                    idx: self.idx,
                    scribble: self.spec.scribble,
                    sticky: self.spec.sticky,
                    trace: std::mem::take(&mut self.trace),
                    cap: script.len() + self.data.len() + 64,
                    runaway: self.runaway,
                    tail: self.spec.tail,
                };
                let r = rd.read(buf);
                self.pos = rd.pos;
                self.idx = rd.idx;
                self.trace = rd.trace;
                self.runaway = rd.runaway;
                r
            };
            self.spec.script = script;
            let mut sh = self.shared.borrow_mut();
            sh.trace = self.trace.clone();
            sh.runaway = self.runaway;
            r
        }
    }
    let shared = Rc::new(RefCell::new(Shared {
        trace: ReadTrace::default(),
        runaway: false,
        opened: false,
        meta_queried: false,
    }));
    let sh2 = shared.clone();
    let data_v = data.to_vec();
    let spec2 = spec.clone();
    ssdeep::verif_hooks::set_opener(Some(Box::new(move |_p| {
        sh2.borrow_mut().opened = true;
        match &spec2.open {
            Err(e) => Some(Err(e.make())),
            Ok(()) => Some(Ok(Box::new(SimF {
                data: data_v.clone(),
                spec: spec2.clone(),
                pos: 0,
                idx: 0,
                trace: ReadTrace::default(),
                runaway: false,
                shared: sh2.clone(),
            }) as Box<dyn ssdeep::verif_hooks::SimFile>)),
        }
    })));
    let guarded_result = crate::core::guarded(|| ssdeep::hash_file("/sim/scripted-file"));
    ssdeep::verif_hooks::set_opener(None);
    let (result, panic) = match guarded_result {
        Ok(r) => (r, None),
        Err(m) => (Err(ssdeep::GeneratorOrIOError::IOError(io::Error::new(ErrorKind::Other, "sim: hash_file panicked"))), Some(m)),
    };
    let sh = shared.borrow();
    FileRun {
        panic,
        result,
        opened: sh.opened,
        meta_queried: sh.meta_queried,
        trace: sh.trace.clone(),
        runaway: sh.runaway,
    }
}
