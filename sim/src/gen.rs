//! S-GEN: call histories over long-lived `Generator` objects.
//!
//! Plain mode (no Declare/Reset ops in the list) decides C03; twin mode
//! (the list contains Declare or Reset) decides C12 by executing every
//! history on the object under test *and* on twins that differ only in the
//! thing under test.

use crate::core::{abr, guarded, Ctx, Outcome};
use crate::json::{hex, unhex, J};
use crate::rng::Rng;
use crate::tape::{chunk_len, gen_payload, Class, Tape};
use crate::words;
use ssdeep::{Generator, GeneratorError, LongRawFuzzyHash, RawFuzzyHash};

pub const MAX: u64 = Generator::MAX_INPUT_SIZE;
pub const NSLOTS: usize = 3;

/// Set when the validation of hook H2 failed: fast-forward operations are
/// then executed by really feeding zeros (runs up to 64 KiB) or dropped
/// (longer ones), so that a broken hook can never be reported as a violation
/// of a property.
pub static NO_FF: std::sync::atomic::AtomicBool = std::sync::atomic::AtomicBool::new(false);

fn no_ff() -> bool {
    NO_FF.load(std::sync::atomic::Ordering::Relaxed)
}

#[derive(Clone, Copy, Debug, PartialEq, Eq, PartialOrd, Ord)]
pub enum Form {
    Slice,
    Iter,
    IterOdd,
    IterLoose,
    Bytewise,
    AddSlice,
    AddArr,
    AddByte,
    Chain,
}

pub const FORMS: [Form; 9] = [
    Form::Slice,
    Form::Iter,
    Form::IterOdd,
    Form::IterLoose,
    Form::Bytewise,
    Form::AddSlice,
    Form::AddArr,
    Form::AddByte,
    Form::Chain,
];

impl Form {
    pub fn name(self) -> &'static str {
        match self {
            Form::Slice => "slice",
            Form::Iter => "iter",
            Form::IterOdd => "iter_odd",
            Form::IterLoose => "iter_loose",
            Form::Bytewise => "bytewise",
            Form::AddSlice => "add_slice",
            Form::AddArr => "add_arr",
            Form::AddByte => "add_byte",
            Form::Chain => "chain",
        }
    }
    pub fn from_name(s: &str) -> Result<Form, String> {
        FORMS.iter().copied().find(|f| f.name() == s).ok_or_else(|| format!("bad form {}", s))
    }
}

#[derive(Clone, Debug, PartialEq)]
pub enum Shot {
    Buf,
    /// `hash_stream` over a fault-free reader with these read sizes.
    /// (`tail` > 0: after the listed reads the rest of the stream is delivered
    /// in reads of at most `tail` bytes -- a tiny-read reader all the way)
    Stream { reads: Vec<u32>, scribble: bool, tail: u32 },
    /// `hash_file` over a consistent scripted file with these read sizes.
    File { reads: Vec<u32>, scribble: bool, tail: u32 },
}

#[derive(Clone, Debug, PartialEq)]
pub enum Op {
    Feed { slot: u8, form: Form, bytes: Vec<u8> },
    Skip { slot: u8, n: u64 },
    /// Really feed `n` zero bytes through one call of the iterator form or of
    /// the slice form, or through n per-byte calls -- unlike `Skip`, which uses
    /// the fast-forward hook.  For per-call state that only misbehaves when a
    /// single call consumes 2^32 bytes or more (scenario `c03huge`).
    RealZeros { slot: u8, n: u64, form: Form },
    /// via 0: `dst = src.clone()`; via 1: `dst.clone_from(&src)` into the existing object
    Clone { src: u8, dst: u8, via: u8 },
    Fin { slot: u8 },
    Shot { slot: u8, kind: Shot },
    Declare { slot: u8, size: u64, usize_api: bool },
    Reset { slot: u8 },
    New { slot: u8 },
}

impl Op {
    pub fn to_json(&self) -> J {
        match self {
            Op::Feed { slot, form, bytes } => J::obj(vec![
                ("op", J::s("feed")),
                ("slot", J::u(*slot as u64)),
                ("form", J::s(form.name())),
                ("hex", J::Str(hex(bytes))),
            ]),
            Op::Skip { slot, n } => {
                J::obj(vec![("op", J::s("skip_zeros")), ("slot", J::u(*slot as u64)), ("n", J::u(*n))])
            }
            Op::RealZeros { slot, n, form } => J::obj(vec![
                ("op", J::s("feed_zeros")),
                ("slot", J::u(*slot as u64)),
                ("n", J::u(*n)),
                ("form", J::s(form.name())),
            ]),
            Op::Clone { src, dst, via } => J::obj(vec![
                ("op", J::s("clone")),
                ("src", J::u(*src as u64)),
                ("dst", J::u(*dst as u64)),
                ("via", J::s(if *via == 0 { "clone" } else { "clone_from" })),
            ]),
            Op::Fin { slot } => J::obj(vec![("op", J::s("finalize")), ("slot", J::u(*slot as u64))]),
            Op::Shot { slot, kind } => {
                let (k, reads, scribble, tail) = match kind {
                    Shot::Buf => ("buf", Vec::new(), false, 0),
                    Shot::Stream { reads, scribble, tail } => ("stream", reads.clone(), *scribble, *tail),
                    Shot::File { reads, scribble, tail } => ("file", reads.clone(), *scribble, *tail),
                };
                J::obj(vec![
                    ("op", J::s("one_shot")),
                    ("slot", J::u(*slot as u64)),
                    ("kind", J::s(k)),
                    ("reads", J::Arr(reads.iter().map(|&r| J::u(r as u64)).collect())),
                    ("scribble", J::Bool(scribble)),
                    ("tail", J::u(tail as u64)),
                ])
            }
            Op::Declare { slot, size, usize_api } => J::obj(vec![
                ("op", J::s("declare")),
                ("slot", J::u(*slot as u64)),
                ("size", J::u(*size)),
                ("usize_api", J::Bool(*usize_api)),
            ]),
            Op::Reset { slot } => J::obj(vec![("op", J::s("reset")), ("slot", J::u(*slot as u64))]),
            Op::New { slot } => J::obj(vec![("op", J::s("new")), ("slot", J::u(*slot as u64))]),
        }
    }
    pub fn from_json(j: &J) -> Result<Op, String> {
        let slot = |k: &str| -> Result<u8, String> { Ok((j.gu(k)? as usize % NSLOTS) as u8) };
        Ok(match j.gs("op")? {
            "feed" => Op::Feed {
                slot: slot("slot")?,
                form: Form::from_name(j.gs("form")?)?,
                bytes: unhex(j.gs("hex")?)?,
            },
            "skip_zeros" => Op::Skip { slot: slot("slot")?, n: j.gu("n")? },
            "feed_zeros" => Op::RealZeros { slot: slot("slot")?, n: j.gu("n")?, form: Form::from_name(j.gs("form")?)? },
            "clone" => Op::Clone {
                src: slot("src")?,
                dst: slot("dst")?,
                via: if j.get("via").and_then(|x| x.str_()) == Some("clone_from") { 1 } else { 0 },
            },
            "finalize" => Op::Fin { slot: slot("slot")? },
            "one_shot" => {
                let reads: Vec<u32> =
                    j.ga("reads")?.iter().map(|x| x.u64_().unwrap_or(1) as u32).collect();
                let scribble = j.gb("scribble")?;
                let tail = j.get("tail").and_then(|x| x.u64_()).unwrap_or(0) as u32;
                let kind = match j.gs("kind")? {
                    "buf" => Shot::Buf,
                    "stream" => Shot::Stream { reads, scribble, tail },
                    "file" => Shot::File { reads, scribble, tail },
                    k => return Err(format!("bad one_shot kind {}", k)),
                };
                Op::Shot { slot: slot("slot")?, kind }
            }
            "declare" => Op::Declare {
                slot: slot("slot")?,
                size: j.gu("size")?,
                usize_api: j.gb("usize_api")?,
            },
            "reset" => Op::Reset { slot: slot("slot")? },
            "new" => Op::New { slot: slot("slot")? },
            o => return Err(format!("bad gen op {}", o)),
        })
    }
    /// Simpler variants of this op, tried by the minimiser.
    pub fn simplify(&self) -> Vec<Op> {
        let mut v = Vec::new();
        match self {
            Op::Feed { slot, form, bytes } => {
                let n = bytes.len();
                if n > 1 {
                    v.push(Op::Feed { slot: *slot, form: *form, bytes: bytes[..n / 2].to_vec() });
                    v.push(Op::Feed { slot: *slot, form: *form, bytes: bytes[n / 2..].to_vec() });
                    v.push(Op::Feed { slot: *slot, form: *form, bytes: bytes[..n - 1].to_vec() });
                    v.push(Op::Feed { slot: *slot, form: *form, bytes: bytes[1..].to_vec() });
                }
                if *form != Form::Slice {
                    v.push(Op::Feed { slot: *slot, form: Form::Slice, bytes: bytes.clone() });
                }
                if bytes.iter().any(|&b| b != 0) && n > 0 {
                    v.push(Op::Feed { slot: *slot, form: *form, bytes: vec![0; n] });
                }
            }
            Op::Skip { slot, n } => {
                if *n > 0 {
                    v.push(Op::Skip { slot: *slot, n: n / 2 });
                    v.push(Op::Skip { slot: *slot, n: n - 1 });
                    let p = 1u64 << (63 - n.leading_zeros());
                    if p != *n {
                        v.push(Op::Skip { slot: *slot, n: p });
                    }
                }
            }
            Op::RealZeros { slot, n, form } => {
                // towards the 2^32 border from above, then small
                if *n > (1u64 << 32) {
                    v.push(Op::RealZeros { slot: *slot, n: 1u64 << 32, form: *form });
                }
                if *n > 0 {
                    v.push(Op::RealZeros { slot: *slot, n: n - 1, form: *form });
                    v.push(Op::Skip { slot: *slot, n: *n });
                }
            }
            Op::Shot { slot, kind } => match kind {
                Shot::Stream { reads, scribble, tail } if !reads.is_empty() || *scribble || *tail > 0 => {
                    v.push(Op::Shot { slot: *slot, kind: Shot::Stream { reads: Vec::new(), scribble: false, tail: *tail } });
                    v.push(Op::Shot {
                        slot: *slot,
                        kind: Shot::Stream { reads: reads[..reads.len() / 2].to_vec(), scribble: *scribble, tail: *tail },
                    });
                    if *tail > 0 {
                        v.push(Op::Shot { slot: *slot, kind: Shot::Stream { reads: reads.clone(), scribble: *scribble, tail: 0 } });
                    }
                }
                Shot::File { reads, scribble, tail } if !reads.is_empty() || *scribble || *tail > 0 => {
                    v.push(Op::Shot { slot: *slot, kind: Shot::File { reads: Vec::new(), scribble: false, tail: *tail } });
                    v.push(Op::Shot {
                        slot: *slot,
                        kind: Shot::File { reads: reads[..reads.len() / 2].to_vec(), scribble: *scribble, tail: *tail },
                    });
                    if *tail > 0 {
                        v.push(Op::Shot { slot: *slot, kind: Shot::File { reads: reads.clone(), scribble: *scribble, tail: 0 } });
                    }
                }
                _ => {}
            },
            Op::Clone { src, dst, via } if *via != 0 => {
                v.push(Op::Clone { src: *src, dst: *dst, via: 0 });
            }
            Op::Declare { slot, size, usize_api } => {
                if *usize_api {
                    v.push(Op::Declare { slot: *slot, size: *size, usize_api: false });
                }
            }
            _ => {}
        }
        v
    }
}

// ---------------------------------------------------------------------------
// Feeding

struct OddIter<'a> {
    b: &'a [u8],
    i: usize,
}
impl Iterator for OddIter<'_> {
    type Item = u8;
    fn next(&mut self) -> Option<u8> {
        let r = self.b.get(self.i).copied();
        self.i += 1;
        r
    }
    // A deliberately useless (but legal) size hint.
    fn size_hint(&self) -> (usize, Option<usize>) {
        (0, None)
    }
}

/// An iterator whose size hint is legal but loose: the upper bound is larger
/// than what it yields (like `filter` / `take_while` adaptors).
struct LooseIter<'a> {
    b: &'a [u8],
    i: usize,
}
impl Iterator for LooseIter<'_> {
    type Item = u8;
    fn next(&mut self) -> Option<u8> {
        let r = self.b.get(self.i).copied();
        self.i += 1;
        r
    }
    fn size_hint(&self) -> (usize, Option<usize>) {
        (0, Some(self.b.len().saturating_sub(self.i.min(self.b.len())) + 5))
    }
}

pub fn feed(g: &mut Generator, form: Form, b: &[u8]) {
    match form {
        Form::Slice => {
            g.update(b);
        }
        Form::Iter => {
            g.update_by_iter(b.iter().copied());
        }
        Form::IterOdd => {
            g.update_by_iter(OddIter { b, i: 0 });
        }
        Form::IterLoose => {
            // half of the time a real std adaptor chain with a loose bound
            if b.len() % 2 == 0 {
                g.update_by_iter(LooseIter { b, i: 0 });
            } else {
                g.update_by_iter(b.iter().copied().chain([0xAAu8, 0xBB]).enumerate().filter(|(i, _)| *i < b.len()).map(|(_, x)| x));
            }
        }
        Form::Bytewise => {
            for &x in b {
                g.update_by_byte(x);
            }
        }
        Form::AddSlice => {
            *g += b;
        }
        Form::AddArr => match b.len() {
            1 => *g += <&[u8; 1]>::try_from(b).unwrap(),
            3 => *g += <&[u8; 3]>::try_from(b).unwrap(),
            7 => *g += <&[u8; 7]>::try_from(b).unwrap(),
            8 => *g += <&[u8; 8]>::try_from(b).unwrap(),
            64 => *g += <&[u8; 64]>::try_from(b).unwrap(),
            _ => *g += b,
        },
        Form::AddByte => {
            for &x in b {
                *g += x;
            }
        }
        Form::Chain => {
            let n = b.len();
            let (a, rest) = b.split_at(n / 3);
            let (m, c) = rest.split_at(rest.len() / 2);
            let mut r = g.update(a).update_by_iter(m.iter().copied());
            for &x in c {
                r = r.update_by_byte(x);
            }
            let _ = r;
        }
    }
}

// ---------------------------------------------------------------------------
// Results of the finalisation family

#[derive(Clone)]
pub enum Res {
    S(Result<RawFuzzyHash, GeneratorError>),
    L(Result<LongRawFuzzyHash, GeneratorError>),
}

impl Res {
    pub fn same(&self, o: &Res) -> bool {
        match (self, o) {
            (Res::S(Ok(a)), Res::S(Ok(b))) => a.full_eq(b),
            (Res::L(Ok(a)), Res::L(Ok(b))) => a.full_eq(b),
            (Res::S(Err(a)), Res::S(Err(b))) => a == b,
            (Res::L(Err(a)), Res::L(Err(b))) => a == b,
            _ => false,
        }
    }
    pub fn show(&self) -> String {
        match self {
            Res::S(Ok(h)) => format!("Ok({})", h),
            Res::L(Ok(h)) => format!("Ok({})", h),
            Res::S(Err(e)) | Res::L(Err(e)) => format!("Err({:?})", e),
        }
    }
    pub fn is_err_of(&self, e: GeneratorError) -> bool {
        matches!(self, Res::S(Err(x)) | Res::L(Err(x)) if *x == e)
    }
    pub fn log_block_size(&self) -> Option<u8> {
        match self {
            Res::S(Ok(h)) => Some(h.log_block_size()),
            Res::L(Ok(h)) => Some(h.log_block_size()),
            _ => None,
        }
    }
}

pub const FIN_NAMES: [&str; 6] = [
    "finalize",
    "finalize_without_truncation",
    "finalize_raw<true,64,32>",
    "finalize_raw<false,64,32>",
    "finalize_raw<true,64,64>",
    "finalize_raw<false,64,64>",
];

pub fn fin_all(g: &Generator) -> [Res; 6] {
    [
        Res::S(g.finalize()),
        Res::L(g.finalize_without_truncation()),
        Res::S(g.finalize_raw::<true, 64, 32>()),
        Res::S(g.finalize_raw::<false, 64, 32>()),
        Res::L(g.finalize_raw::<true, 64, 64>()),
        Res::L(g.finalize_raw::<false, 64, 64>()),
    ]
}

fn show_all(r: &[Res; 6]) -> String {
    r.iter().map(|x| x.show()).collect::<Vec<_>>().join(" ; ")
}

// ---------------------------------------------------------------------------
// Model

#[derive(Clone, Debug)]
pub enum Seg {
    Bytes(Vec<u8>),
    Zeros(u64),
}

#[derive(Clone, Debug, Default)]
pub struct Model {
    pub segs: Vec<Seg>,
    pub len: u64,
    pub virt: u64,
}

/// Zero runs up to this size are materialised in the reference.
const MATERIALISE_MAX: u64 = 65536;

impl Model {
    fn push_bytes(&mut self, b: &[u8]) {
        self.len = self.len.saturating_add(b.len() as u64);
        if let Some(Seg::Bytes(v)) = self.segs.last_mut() {
            v.extend_from_slice(b);
        } else if !b.is_empty() {
            self.segs.push(Seg::Bytes(b.to_vec()));
        }
    }
    fn push_zeros(&mut self, n: u64) {
        self.len = self.len.saturating_add(n);
        if n <= MATERIALISE_MAX {
            self.push_bytes_nolen(&vec![0u8; n as usize]);
        } else {
            self.virt = self.virt.saturating_add(n);
            if let Some(Seg::Zeros(z)) = self.segs.last_mut() {
                *z = z.saturating_add(n);
            } else {
                self.segs.push(Seg::Zeros(n));
            }
        }
    }
    fn push_bytes_nolen(&mut self, b: &[u8]) {
        if let Some(Seg::Bytes(v)) = self.segs.last_mut() {
            v.extend_from_slice(b);
        } else if !b.is_empty() {
            self.segs.push(Seg::Bytes(b.to_vec()));
        }
    }
    /// All bytes, if the model has no virtual part.
    pub fn all_bytes(&self) -> Option<Vec<u8>> {
        let mut v = Vec::new();
        for s in &self.segs {
            match s {
                Seg::Bytes(b) => v.extend_from_slice(b),
                Seg::Zeros(_) => return None,
            }
        }
        Some(v)
    }
    /// The canonical minimal history on a fresh generator: one `update` per
    /// maximal real segment, one fast-forward per virtual zero segment.
    pub fn reference(&self) -> Generator {
        let mut g = Generator::new();
        for s in &self.segs {
            match s {
                Seg::Bytes(b) => {
                    g.update(b);
                }
                Seg::Zeros(n) => {
                    g.verif_feed_zero_bytes(*n);
                }
            }
        }
        g
    }
}

// ---------------------------------------------------------------------------
// Probing generator internals through Debug (coverage accounting only)

#[derive(Default, Clone, Copy, Debug)]
pub struct GState {
    pub known: bool,
    pub start: u64,
    pub end: u64,
    pub limit: u64,
    pub is_last: bool,
    pub fixed: bool,
}

fn field_u64(s: &str, name: &str) -> Option<u64> {
    let i = s.find(name)? + name.len();
    let rest = &s[i..];
    let end = rest.find(|c: char| !c.is_ascii_digit()).unwrap_or(rest.len());
    rest[..end].parse().ok()
}

pub fn gstate_of(dbg: &str) -> GState {
    let (Some(start), Some(end), Some(limit)) = (
        field_u64(dbg, "bhidx_start: "),
        field_u64(dbg, "bhidx_end: "),
        field_u64(dbg, "bhidx_end_limit: "),
    ) else {
        return GState::default();
    };
    GState {
        known: true,
        start,
        end,
        limit,
        is_last: dbg.contains("is_last: true"),
        fixed: dbg.contains("fixed_size: Some("),
    }
}

fn probe_state(cx: &mut Ctx, st: &GState) {
    if !st.known {
        cx.probe("gen.state_unknown");
        return;
    }
    // engine-state class: (first active context, one past the last active
    // context, fork limit, last-hash active, size declared)
    cx.classes.insert((st.start << 24) | (st.end << 16) | (st.limit << 8) | ((st.is_last as u64) << 1) | (st.fixed as u64));
    if st.start >= 1 {
        cx.probe("gen.elim>=1");
    }
    if st.start >= 3 {
        cx.probe("gen.elim>=3");
    }
    if st.start >= 8 {
        cx.probe("gen.elim>=8");
    }
    if st.start >= 20 {
        cx.probe("gen.elim>=20");
    }
    if st.end >= 31 {
        cx.probe("gen.all_contexts");
    }
    if st.is_last {
        cx.probe("gen.last_hash_active");
    }
    if st.limit < 30 {
        cx.probe("gen.fork_limited");
    }
}

// ---------------------------------------------------------------------------
// Executor

struct Slot {
    g: Generator,
    model: Model,
    declared: Option<u64>,
    nodecl: Generator,
    fresh: Generator,
    had_reset: bool,
    /// last up-to-6 bytes fed (to detect a call boundary inside a trigger word)
    tail: Vec<u8>,
    forms: u16,
    feeds: u32,
    cloned_then_fed: bool,
    is_clone: bool,
}

impl Slot {
    fn new() -> Slot {
        Slot {
            g: Generator::new(),
            model: Model::default(),
            declared: None,
            nodecl: Generator::new(),
            fresh: Generator::new(),
            had_reset: false,
            tail: Vec::new(),
            forms: 0,
            feeds: 0,
            cloned_then_fed: false,
            is_clone: false,
        }
    }
    fn dup(&self) -> Slot {
        Slot {
            g: self.g.clone(),
            model: self.model.clone(),
            declared: self.declared,
            nodecl: self.nodecl.clone(),
            fresh: self.fresh.clone(),
            had_reset: self.had_reset,
            tail: self.tail.clone(),
            forms: self.forms,
            feeds: self.feeds,
            cloned_then_fed: false,
            is_clone: true,
        }
    }
}

fn is_twin_mode(ops: &[Op]) -> bool {
    ops.iter().any(|o| matches!(o, Op::Declare { .. } | Op::Reset { .. }))
}

/// Which property a plain-mode / twin-mode run belongs to.
pub fn prop_of(ops: &[Op]) -> &'static str {
    if is_twin_mode(ops) {
        "C12"
    } else {
        "C03"
    }
}

pub fn execute(ops: &[Op], verbose: bool) -> Outcome {
    let mut cx = Ctx::new(verbose);
    let twin = is_twin_mode(ops);
    let mut slots: Vec<Slot> = (0..NSLOTS).map(|_| Slot::new()).collect();
    let panic_check: &'static str = if twin { "C12.no_panic" } else { "C03.no_panic" };
    for (i, op) in ops.iter().enumerate() {
        cx.step = i;
        let r = guarded(|| step(&mut cx, &mut slots, op, twin));
        if let Err(msg) = r {
            cx.fail(panic_check, format!("panic:{}", op_name(op)), format!("operation panicked: {}", msg));
            cx.ev(true, format_args!("panic in {}", op_name(op)));
            break;
        }
        if cx.aborted {
            break;
        }
    }
    cx.step = ops.len();
    // run-level probes
    let mut forms = 0u16;
    let mut feeds = 0u32;
    for s in &slots {
        forms |= s.forms;
        feeds += s.feeds;
        if s.cloned_then_fed {
            cx.probe("gen.clone_diverged");
        }
        if s.model.virt >= (1u64 << 32) {
            cx.probe("gen.virtual>=2^32");
        }
    }
    if forms.count_ones() >= 2 && feeds >= 2 {
        cx.probe("gen.mixed_forms");
    }
    cx.finish()
}

fn op_name(op: &Op) -> &'static str {
    match op {
        Op::Feed { .. } => "feed",
        Op::Skip { .. } => "skip_zeros",
        Op::RealZeros { .. } => "feed_zeros",
        Op::Clone { .. } => "clone",
        Op::Fin { .. } => "finalize",
        Op::Shot { .. } => "one_shot",
        Op::Declare { .. } => "declare",
        Op::Reset { .. } => "reset",
        Op::New { .. } => "new",
    }
}

fn step(cx: &mut Ctx, slots: &mut [Slot], op: &Op, twin: bool) {
    match op {
        Op::Feed { slot, form, bytes } => {
            let s = &mut slots[*slot as usize];
            // boundary inside a trigger word?
            if !s.tail.is_empty() && !bytes.is_empty() {
                let mut w: Vec<u8> = s.tail.clone();
                w.extend_from_slice(&bytes[..bytes.len().min(6)]);
                let tl = s.tail.len();
                for st in 0..w.len().saturating_sub(6) {
                    if st < tl && st + 7 > tl {
                        let win: [u8; 7] = w[st..st + 7].try_into().unwrap();
                        if words::level_of(&win).is_some() {
                            cx.probe("gen.boundary_in_trigger_word");
                        }
                    }
                }
            }
            feed(&mut s.g, *form, bytes);
            if twin {
                feed(&mut s.nodecl, *form, bytes);
                feed(&mut s.fresh, *form, bytes);
            }
            s.model.push_bytes(bytes);
            cx.probe_n("sim.bytes_really_fed", bytes.len() as u64);
            s.forms |= 1 << (*form as u16);
            s.feeds += 1;
            if s.is_clone {
                s.cloned_then_fed = true;
            }
            s.tail.extend_from_slice(bytes);
            if s.tail.len() > 6 {
                let cut = s.tail.len() - 6;
                s.tail.drain(..cut);
            }
            cx.ev(true, format_args!("feed s{} {} {}", slot, form.name(), abr(bytes)));
        }
        Op::Skip { slot, n } => {
            let s = &mut slots[*slot as usize];
            if no_ff() {
                if *n > MATERIALISE_MAX {
                    cx.ev(true, format_args!("skip s{} {} dropped (fast-forward disabled)", slot, n));
                    return;
                }
                let z = vec![0u8; *n as usize];
                s.g.update(&z);
                if twin {
                    s.nodecl.update(&z);
                    s.fresh.update(&z);
                }
            } else {
                s.g.verif_feed_zero_bytes(*n);
                if twin {
                    s.nodecl.verif_feed_zero_bytes(*n);
                    s.fresh.verif_feed_zero_bytes(*n);
                }
            }
            s.model.push_zeros(*n);
            cx.probe_n("sim.bytes_virtually_skipped", *n);
            if *n >= 6 {
                s.tail = vec![0; 6];
            } else {
                s.tail.extend(std::iter::repeat(0u8).take(*n as usize));
                if s.tail.len() > 6 {
                    let cut = s.tail.len() - 6;
                    s.tail.drain(..cut);
                }
            }
            cx.ev(true, format_args!("skip s{} {}", slot, n));
        }
        Op::RealZeros { slot, n, form } => {
            if no_ff() && *n > MATERIALISE_MAX {
                // the reference for a run this long needs the fast-forward hook,
                // which failed its validation in this build: not executed
                cx.ev(true, format_args!("feed_zeros s{} {} dropped (fast-forward disabled)", slot, n));
                return;
            }
            let s = &mut slots[*slot as usize];
            fn feed(g: &mut Generator, n: u64, form: Form) {
                match form {
                    Form::Slice | Form::AddSlice | Form::AddArr | Form::Chain if n <= (6u64 << 30) => {
                        let z = vec![0u8; n as usize];
                        g.update(&z);
                    }
                    Form::Bytewise | Form::AddByte => {
                        for _ in 0..n {
                            g.update_by_byte(0);
                        }
                    }
                    _ => {
                        // one iterator call, exact size hint unknown to the callee beyond `take`
                        g.update_by_iter(std::iter::repeat(0u8).take(n as usize));
                    }
                }
            }
            feed(&mut s.g, *n, *form);
            if twin {
                feed(&mut s.nodecl, *n, *form);
                feed(&mut s.fresh, *n, *form);
            }
            s.model.push_zeros(*n);
            cx.probe_n("sim.bytes_really_fed_as_zero_runs", *n);
            if *n >= (1u64 << 32) {
                cx.probe("gen.single_call>=2^32");
            }
            if *n >= 6 {
                s.tail = vec![0; 6];
            } else {
                s.tail.extend(std::iter::repeat(0u8).take(*n as usize));
                if s.tail.len() > 6 {
                    let cut = s.tail.len() - 6;
                    s.tail.drain(..cut);
                }
            }
            cx.ev(true, format_args!("feed_zeros s{} {} {}", slot, n, form.name()));
        }
        Op::Clone { src, dst, via } => {
            if src != dst {
                let mut d = slots[*src as usize].dup();
                if *via != 0 {
                    // clone_from into the (possibly dirty) existing objects
                    let old = std::mem::replace(&mut slots[*dst as usize], Slot::new());
                    let (mut g, mut n, mut f) = (old.g, old.nodecl, old.fresh);
                    g.clone_from(&slots[*src as usize].g);
                    n.clone_from(&slots[*src as usize].nodecl);
                    f.clone_from(&slots[*src as usize].fresh);
                    d.g = g;
                    d.nodecl = n;
                    d.fresh = f;
                    cx.probe("gen.clone_from");
                }
                slots[*dst as usize] = d;
            }
            cx.ev(true, format_args!("clone s{}->s{} via{}", src, dst, via));
        }
        Op::New { slot } => {
            slots[*slot as usize] = Slot::new();
            cx.ev(true, format_args!("new s{}", slot));
        }
        Op::Fin { slot } => fin_step(cx, &mut slots[*slot as usize], *slot, twin),
        Op::Shot { slot, kind } => shot_step(cx, &slots[*slot as usize], *slot, kind, twin),
        Op::Declare { slot, size, usize_api } => {
            declare_step(cx, &mut slots[*slot as usize], *slot, *size, *usize_api)
        }
        Op::Reset { slot } => {
            let s = &mut slots[*slot as usize];
            let st = if cfg!(miri) { GState::default() } else { gstate_of(&format!("{:?}", s.g)) };
            if st.known {
                if st.start > 0 {
                    cx.probe("reset.after_elim");
                }
                if st.start >= 8 {
                    cx.probe("reset.after_elim>=8");
                }
                if st.is_last {
                    cx.probe("reset.after_last_hash");
                }
                if st.fixed {
                    cx.probe("reset.after_declared");
                }
                if st.limit < 30 {
                    cx.probe("reset.after_fork_limited");
                }
                if st.end > 1 {
                    cx.probe("reset.after_forks");
                }
            }
            if s.model.len > 0 {
                cx.probe("reset.dirty");
            }
            s.g.reset();
            s.model = Model::default();
            s.declared = None;
            s.nodecl = Generator::new();
            s.fresh = Generator::new();
            s.had_reset = true;
            s.tail.clear();
            cx.ev(true, format_args!("reset s{}", slot));
        }
    }
}

fn fin_step(cx: &mut Ctx, s: &mut Slot, slot: u8, twin: bool) {
    // (Debug rendering of a generator is far too slow under Miri; the state
    // comparison and the coverage probes are skipped there.)
    let before = if cfg!(miri) { String::new() } else { format!("{:?}", s.g) };
    let ra = fin_all(&s.g);
    let after = if cfg!(miri) { String::new() } else { format!("{:?}", s.g) };
    let st = gstate_of(&after);
    probe_state(cx, &st);
    cx.ev(true, format_args!("fin s{} size={} {}", slot, s.g.input_size(), show_all(&ra)));
    cx.ev(false, format_args!("state s{} {:016x}", slot, crate::core::fnv64_of(after.as_bytes())));
    // the reference (fresh object, canonical minimal history, never declared)
    let refg = s.model.reference();
    let rr = fin_all(&refg);
    if let Some(l) = rr[0].log_block_size() {
        if l >= 6 {
            cx.probe("gen.result_bs>=6");
        }
        if l >= 18 {
            cx.probe("gen.result_bs>=18");
        }
        if l == 30 {
            cx.probe("gen.result_bs=30");
        }
    }
    if let Res::S(Ok(h)) = &rr[0] {
        if h.block_hash_1_len() == 64 {
            cx.probe("gen.bh1_full");
        }
        if h.block_hash_2_len() == 32 {
            cx.probe("gen.bh2_full");
        }
    }
    if rr[3].is_err_of(GeneratorError::OutputOverflow) {
        cx.probe("gen.output_overflow");
    }
    if rr[0].is_err_of(GeneratorError::InputSizeTooLarge) {
        cx.probe("gen.input_too_large");
    }
    // "Finalizing never disturbs subsequent updates" is C03's sentence: judged
    // in plain mode only (twin-mode runs belong to C12)
    if !twin && before != after {
        cx.fail("C03.finalize_pure", "finalize_changed_state", "Debug state differs before/after finalize*".to_string());
    }
    // C03: the object fed by the history (without any declaration) vs the reference
    let (subject, subj_res): (&Generator, [Res; 6]) = if twin { (&s.nodecl, fin_all(&s.nodecl)) } else { (&s.g, ra.clone()) };
    for k in 0..6 {
        if !subj_res[k].same(&rr[k]) {
            cx.fail(
                "C03.split_eq",
                format!("{}", FIN_NAMES[k]),
                format!("{}: history gives {} but one-call reference gives {}", FIN_NAMES[k], subj_res[k].show(), rr[k].show()),
            );
            break;
        }
    }
    if subject.input_size() != s.model.len {
        cx.fail(
            "C03.size_eq",
            "input_size",
            format!("input_size()={} but {} bytes were fed", subject.input_size(), s.model.len),
        );
    }
    if !twin {
        return;
    }
    // C12: A (declared or not) vs the never-declared twin fed by the same calls
    let rn = subj_res;
    match s.declared {
        Some(d) if d != s.model.len => {
            cx.probe("hint.mismatch_finalize");
            for k in 0..6 {
                if !ra[k].is_err_of(GeneratorError::FixedSizeMismatch) {
                    cx.fail(
                        "C12.hint_mismatch_err",
                        format!("{}", FIN_NAMES[k]),
                        format!("declared {} but fed {}: {} returned {}", d, s.model.len, FIN_NAMES[k], ra[k].show()),
                    );
                    break;
                }
            }
        }
        Some(d) => {
            cx.probe("hint.exact_finalize");
            if st.known && st.limit < 30 {
                cx.probe("hint.exact_finalize_fork_limited");
            }
            for k in 0..6 {
                if !ra[k].same(&rn[k]) {
                    cx.fail(
                        "C12.hint_exact_same",
                        format!("{}", FIN_NAMES[k]),
                        format!("declared {} = fed: {} gives {} with the hint, {} without", d, FIN_NAMES[k], ra[k].show(), rn[k].show()),
                    );
                    break;
                }
            }
        }
        None => {
            for k in 0..6 {
                if !ra[k].same(&rn[k]) {
                    cx.fail(
                        "C12.undeclared_same",
                        format!("{}", FIN_NAMES[k]),
                        format!("no effective declaration: {} gives {} but twin gives {}", FIN_NAMES[k], ra[k].show(), rn[k].show()),
                    );
                    break;
                }
            }
        }
    }
    if s.had_reset {
        cx.probe("reset.finalize_after");
        let rf = fin_all(&s.fresh);
        for k in 0..6 {
            if !ra[k].same(&rf[k]) {
                cx.fail(
                    "C12.reset_fresh",
                    format!("{}", FIN_NAMES[k]),
                    format!("after reset {} gives {}, a new generator gives {}", FIN_NAMES[k], ra[k].show(), rf[k].show()),
                );
                break;
            }
        }
        if s.g.input_size() != s.fresh.input_size() {
            cx.fail("C12.reset_fresh", "input_size", format!("input_size {} vs fresh {}", s.g.input_size(), s.fresh.input_size()));
        }
        if s.g.may_warn_about_small_input_size() != s.fresh.may_warn_about_small_input_size() {
            cx.fail("C12.reset_fresh", "may_warn", "may_warn_about_small_input_size differs from a new generator".to_string());
        }
    }
}

fn declare_step(cx: &mut Ctx, s: &mut Slot, slot: u8, size: u64, usize_api: bool) {
    let before = if cfg!(miri) { String::new() } else { format!("{:?}", s.g) };
    let call = |g: &mut Generator| -> Result<(), GeneratorError> {
        if usize_api {
            match usize::try_from(size) {
                Ok(u) => g.set_fixed_input_size_in_usize(u),
                Err(_) => g.set_fixed_input_size(size),
            }
        } else {
            g.set_fixed_input_size(size)
        }
    };
    let r = call(&mut s.g);
    let rf = call(&mut s.fresh);
    cx.ev(true, format_args!("declare s{} {} usize={} -> {:?}", slot, size, usize_api, r));
    let too_large = size > MAX;
    let differs = matches!(s.declared, Some(d) if d != size);
    let sig = if usize_api { "usize" } else { "u64" };
    if too_large || differs {
        let ok = match r {
            Err(GeneratorError::FixedSizeTooLarge) => too_large,
            Err(GeneratorError::FixedSizeMismatch) => differs,
            _ => false,
        };
        if too_large {
            cx.probe("hint.too_large");
        }
        if differs {
            cx.probe("hint.twice_different");
        }
        if !ok {
            let check: &'static str = if too_large { "C12.hint_too_large" } else { "C12.hint_twice" };
            cx.fail(
                check,
                sig,
                format!("declare({}) with previous declaration {:?} returned {:?}", size, s.declared, r),
            );
        }
        let after = if cfg!(miri) { String::new() } else { format!("{:?}", s.g) };
        if before != after {
            cx.fail(
                "C12.hint_refused_unchanged",
                sig,
                format!("refused declare({}) changed the generator state", size),
            );
        }
    } else {
        if s.declared == Some(size) {
            cx.probe("hint.twice_same");
        }
        if size == s.model.len {
            cx.probe("hint.declared_at_current_len");
        }
        if s.model.len > 0 {
            cx.probe("hint.declared_midstream");
        }
        if r.is_err() {
            cx.fail(
                "C12.hint_accepts",
                sig,
                format!("valid declare({}) (previous {:?}) returned {:?}", size, s.declared, r),
            );
        } else {
            s.declared = Some(size);
        }
    }
    if s.had_reset && r != rf {
        cx.fail(
            "C12.reset_fresh",
            "declare",
            format!("after reset declare({}) returned {:?}, on a new generator {:?}", size, r, rf),
        );
    }
}

#[cfg(feature = "std-easy")]
fn shot_step(cx: &mut Ctx, s: &Slot, slot: u8, kind: &Shot, twin: bool) {
    use crate::reader::{run_hash_file, FileSpec, REv, SimReader};
    let Some(all) = s.model.all_bytes() else {
        cx.ev_std(format_args!("one_shot s{} skipped (virtual input)", slot));
        return;
    };
    let mut refg = Generator::new();
    refg.update(&all);
    let want = refg.finalize();
    let check: &'static str = if twin { "C12.easy_declares" } else { "C03.one_shot_eq" };
    let show = |r: &Result<RawFuzzyHash, GeneratorError>| match r {
        Ok(h) => format!("Ok({})", h),
        Err(e) => format!("Err({:?})", e),
    };
    match kind {
        Shot::Buf => {
            let got = ssdeep::hash_buf(&all);
            cx.ev_std(format_args!("hash_buf s{} {} -> {}", slot, abr(&all), show(&got)));
            cx.probe("shot.buf");
            let same = match (&got, &want) {
                (Ok(a), Ok(b)) => a.full_eq(b),
                (Err(a), Err(b)) => a == b,
                _ => false,
            };
            if !same {
                cx.fail(check, "hash_buf", format!("hash_buf gives {} but Generator gives {}", show(&got), show(&want)));
            }
        }
        Shot::Stream { reads, scribble, tail } => {
            let script: Vec<REv> = reads.iter().map(|&r| REv::Deliver(r.max(1))).collect();
            let mut rd = SimReader::new(&all, &script, *scribble, true).with_tail(*tail);
            if *tail > 0 && all.len() > 32768 {
                cx.probe("shot.tiny_reads_beyond_buffer");
            }
            let got = ssdeep::hash_stream(&mut rd);
            let txt = match &got {
                Ok(h) => format!("Ok({})", h),
                Err(e) => format!("Err({})", e),
            };
            cx.ev_std(format_args!("hash_stream s{} {} -> {}", slot, abr(&all), txt));
            cx.probe("shot.stream");
            if rd.trace.chunks.iter().any(|&c| c < rd.trace.max_buf) && rd.trace.chunks.len() > 1 {
                cx.probe("shot.short_reads");
            }
            if all.len() > 32768 {
                cx.probe("shot.crossed_buffer");
            }
            let same = match (&got, &want) {
                (Ok(a), Ok(b)) => a.full_eq(b),
                _ => false,
            };
            if same && rd.trace.delivered != all.len() {
                // Stopped before the end, yet the hash of the prefix happens to
                // coincide with the hash of the whole: on *this* input the
                // property's statement holds, so this is a probe, not a report.
                cx.probe("shot.stream_stopped_early_same_hash");
            }
            if !same {
                cx.fail(
                    check,
                    "hash_stream",
                    format!("hash_stream under short reads gives {} ({} of {} bytes read) but Generator gives {}", txt, rd.trace.delivered, all.len(), show(&want)),
                );
            }
        }
        Shot::File { reads, scribble, tail } => {
            let script: Vec<REv> = reads.iter().map(|&r| REv::Deliver(r.max(1))).collect();
            // The undeclared twin of hash_file is hash_stream over the same
            // reads.  If that twin does not produce the reference hash, the
            // stream path itself is broken (C03 / C18 business): hash_file
            // is then not judged here, because a size declaration that
            // *correctly* refuses a short-fed stream is what C12 demands.
            if twin {
                let mut rd = SimReader::new(&all, &script, *scribble, true).with_tail(*tail);
                let tw = ssdeep::hash_stream(&mut rd);
                // ... and it must have read the whole file: a stream path that stops
                // early (and by coincidence still gets the hash of a tiny input) makes
                // the declaration refuse a short-fed stream, which is C12 working
                let twin_ok = matches!((&tw, &want), (Ok(a), Ok(b)) if a.full_eq(b)) && rd.trace.delivered == all.len();
                if !twin_ok {
                    cx.probe("shot.file_twin_foreign");
                    cx.ev_std(format_args!("hash_file s{} {} not judged: undeclared stream twin disagrees with the reference", slot, abr(&all)));
                    return;
                }
            }
            let spec = FileSpec { open: Ok(()), meta: Ok(all.len() as u64), script, scribble: *scribble, sticky: true, tail: *tail };
            let fr = run_hash_file(&all, &spec);
            if let Some(m) = &fr.panic {
                panic!("hash_file panicked: {}", m);
            }
            let txt = match &fr.result {
                Ok(h) => format!("Ok({})", h),
                Err(e) => format!("Err({})", e),
            };
            cx.ev_std(format_args!("hash_file s{} {} -> {}", slot, abr(&all), txt));
            cx.probe("shot.file");
            let same = match (&fr.result, &want) {
                (Ok(a), Ok(b)) => a.full_eq(b),
                _ => false,
            };
            if !same {
                cx.fail(
                    check,
                    "hash_file",
                    format!("hash_file on a consistent file gives {} but Generator gives {}", txt, show(&want)),
                );
            }
        }
    }
}

#[cfg(not(feature = "std-easy"))]
fn shot_step(cx: &mut Ctx, _s: &Slot, slot: u8, _kind: &Shot, _twin: bool) {
    // Easy functions do not exist in this configuration: a local line.
    cx.ev(false, format_args!("one_shot s{} unavailable", slot));
}

// ---------------------------------------------------------------------------
// Generation of histories

struct Cursor {
    tape: usize,
    pos: usize,
}

fn pick_form(rng: &mut Rng, allowed: &[Form]) -> Form {
    *rng.pick(allowed)
}

/// Targets for the total input size of virtual-prefix runs.
fn virtual_total(rng: &mut Rng) -> u64 {
    match rng.below(6) {
        0 => {
            let k = rng.range(10, 30);
            (192u64 << k).wrapping_add(rng.range(0, 4)).wrapping_sub(2)
        }
        1 => (96u64 << 30).wrapping_add(rng.range(0, 14) * 64).wrapping_sub(7 * 64),
        2 => MAX - 1,
        3 => MAX,
        4 => MAX + 1 + rng.below(3),
        _ => {
            let k = rng.range(18, 30);
            (192u64 << k) + rng.range(1, 1 << 20)
        }
    }
}

/// A crafted suffix that creates pieces at high block-size indices.
fn high_suffix(rng: &mut Rng) -> Tape {
    let mut t = gen_payload(rng, Class::Tiny);
    t.bytes.clear();
    t.marks.clear();
    let groups = rng.range(1, 3);
    for _ in 0..groups {
        let lvl = match rng.below(3) {
            0 => 30,
            1 => rng.range(27, 30) as usize,
            _ => rng.range(15, 30) as usize,
        };
        let count = *rng.pick(&[1u64, 2, 31, 32, 33, 64, 65, 66]);
        for _ in 0..count {
            t.push_word(lvl, rng);
        }
    }
    let tail = rng.below(9) as usize;
    t.push_random(tail, rng);
    t
}

fn gen_feeds(rng: &mut Rng, ops: &mut Vec<Op>, slot: u8, tape: &Tape, from: usize, to: usize, forms: &[Form], budget: &mut usize) -> usize {
    // feed tape[from..to] in random chunks; returns the new position
    let mut pos = from;
    while pos < to && *budget > 0 {
        let mut form = pick_form(rng, forms);
        let mut n = chunk_len(rng, pos, to, &tape.marks);
        if form == Form::AddArr {
            let sizes = [1usize, 3, 7, 8, 64];
            let fit: Vec<usize> = sizes.iter().copied().filter(|&s| s <= to - pos).collect();
            if fit.is_empty() {
                form = Form::AddSlice;
            } else {
                n = *rng.pick(&fit);
            }
        }
        if *budget == 1 {
            n = to - pos;
        }
        ops.push(Op::Feed { slot, form, bytes: tape.bytes[pos..pos + n].to_vec() });
        pos += n;
        *budget -= 1;
    }
    if pos < to {
        ops.push(Op::Feed { slot, form: Form::Slice, bytes: tape.bytes[pos..to].to_vec() });
        pos = to;
    }
    pos
}

fn gen_reads(rng: &mut Rng, total: usize) -> Vec<u32> {
    let mut v = Vec::new();
    let mut left = total;
    let style = rng.below(5);
    let mut guard = 0;
    while left > 0 && guard < 200 {
        guard += 1;
        let n = match style {
            0 => 1 + rng.below(16) as usize,
            1 => 4096,
            2 => 32768,
            3 => *rng.pick(&[1usize, 7, 100, 4096, 32767, 32768, 32769, 65536, 100000]),
            _ => 1 + rng.below(40000) as usize,
        };
        v.push(n as u32);
        left = left.saturating_sub(n.min(32768));
    }
    v
}

const CLASSES: [Class; 7] = [Class::Tiny, Class::Random, Class::Mixed, Class::Words, Class::ZeroTail, Class::Border, Class::Buffer];

/// Boundary sweep: one payload, the call boundary placed at a dozen offsets
/// (around the marks and at random), every trial on a re-created slot.
fn generate_c03_sweep(rng: &mut Rng) -> Vec<Op> {
    let mut ops = Vec::new();
    let class = *rng.pick(&[Class::Tiny, Class::Random, Class::Words, Class::ZeroTail, Class::Border, Class::Mixed]);
    let mut t = gen_payload(rng, class);
    if t.bytes.len() > 900 {
        // keep the end (crafted words / zero tails sit there)
        let cut = t.bytes.len() - 900;
        t.bytes.drain(..cut);
        t.marks = t.marks.iter().filter(|&&m| m >= cut).map(|&m| m - cut).collect();
    }
    let n = t.bytes.len();
    let fa = *rng.pick(&FORMS);
    let fb = *rng.pick(&FORMS);
    let fix = |f: Form, len: usize| if f == Form::AddArr && ![1usize, 3, 7, 8, 64].contains(&len) { Form::AddSlice } else { f };
    let trials = rng.range(6, 12);
    for _ in 0..trials {
        let k = if !t.marks.is_empty() && rng.chance(2, 3) {
            let m = *rng.pick(&t.marks) as i64 + rng.range(0, 8) as i64 - 4;
            m.clamp(0, n as i64) as usize
        } else {
            rng.usize_below(n + 1)
        };
        ops.push(Op::New { slot: 0 });
        if rng.chance(1, 3) && k < n {
            // 3-split with a middle chunk of 1..8 bytes
            let m = (1 + rng.usize_below(8)).min(n - k);
            ops.push(Op::Feed { slot: 0, form: fix(fa, k), bytes: t.bytes[..k].to_vec() });
            ops.push(Op::Feed { slot: 0, form: fix(fb, m), bytes: t.bytes[k..k + m].to_vec() });
            ops.push(Op::Feed { slot: 0, form: fix(fa, n - k - m), bytes: t.bytes[k + m..].to_vec() });
        } else {
            ops.push(Op::Feed { slot: 0, form: fix(fa, k), bytes: t.bytes[..k].to_vec() });
            if rng.chance(1, 6) {
                ops.push(Op::Fin { slot: 0 });
            }
            ops.push(Op::Feed { slot: 0, form: fix(fb, n - k), bytes: t.bytes[k..].to_vec() });
        }
        ops.push(Op::Fin { slot: 0 });
    }
    ops
}

/// Declaration / reset placed at every position of one fixed chunking.
fn generate_c12_sweep(rng: &mut Rng) -> Vec<Op> {
    let mut ops = Vec::new();
    let class = *rng.pick(&[Class::Tiny, Class::Random, Class::Words, Class::ZeroTail, Class::Border, Class::Mixed]);
    let mut t = gen_payload(rng, class);
    t.bytes.truncate(2500);
    let n = t.bytes.len();
    let nch = rng.range(1, 4) as usize;
    let mut cuts: Vec<usize> = (0..nch - 1).map(|_| rng.usize_below(n + 1)).collect();
    cuts.sort_unstable();
    cuts.push(n);
    let forms: Vec<Form> = (0..nch).map(|_| *rng.pick(&[Form::Slice, Form::Iter, Form::Bytewise, Form::AddSlice, Form::Chain])).collect();
    let with_reset = rng.chance(1, 2);
    let wrong = rng.chance(1, 4);
    for pos in 0..=nch {
        ops.push(Op::New { slot: 0 });
        if with_reset {
            // dirty first, with a prefix of the same payload and a small declaration
            ops.push(Op::Declare { slot: 0, size: rng.below(300), usize_api: false });
            let k = rng.usize_below(n + 1);
            ops.push(Op::Feed { slot: 0, form: Form::Slice, bytes: t.bytes[..k].to_vec() });
            ops.push(Op::Reset { slot: 0 });
        }
        let mut prev = 0usize;
        for (ci, &c) in cuts.iter().enumerate() {
            if ci == pos {
                ops.push(Op::Declare { slot: 0, size: if wrong { n as u64 + 1 } else { n as u64 }, usize_api: rng.chance(1, 3) });
            }
            ops.push(Op::Feed { slot: 0, form: forms[ci], bytes: t.bytes[prev..c].to_vec() });
            prev = c;
        }
        if pos == nch {
            ops.push(Op::Declare { slot: 0, size: if wrong { n as u64 + 1 } else { n as u64 }, usize_api: false });
        }
        ops.push(Op::Fin { slot: 0 });
    }
    ops
}

/// Plain C03 history.
/// `c03huge` (thorough tier only): one call of one update form consumes 2^32
/// bytes or more, then trigger words, then finalisation.  A run costs 10-40 s.
pub fn generate_c03_huge(seed: u64) -> Vec<Op> {
    let mut rng = Rng::new(seed);
    let mut ops = Vec::new();
    let form = *rng.pick(&[Form::Iter, Form::Iter, Form::Bytewise, Form::Slice]);
    let n = match rng.below(4) {
        0 => 1u64 << 32,
        1 => (1u64 << 32) + rng.range(1, 600),
        2 => (1u64 << 32) - rng.range(1, 600),
        _ => (1u64 << 32) + (rng.range(1, 4) << 20) + rng.below(64),
    };
    if rng.chance(1, 2) {
        let t = gen_payload(&mut rng, Class::Words);
        let k = t.bytes.len().min(400);
        ops.push(Op::Feed { slot: 0, form: Form::Slice, bytes: t.bytes[..k].to_vec() });
    }
    ops.push(Op::RealZeros { slot: 0, n, form });
    let t = gen_payload(&mut rng, Class::Words);
    let k = t.bytes.len().min(2000);
    ops.push(Op::Feed { slot: 0, form: *rng.pick(&[Form::Slice, Form::Iter, Form::Bytewise]), bytes: t.bytes[..k].to_vec() });
    ops.push(Op::Fin { slot: 0 });
    ops
}

pub fn generate_c03(seed: u64) -> Vec<Op> {
    let mut rng = Rng::new(seed);
    if rng.chance(1, 6) {
        return generate_c03_sweep(&mut rng);
    }
    let mut ops = Vec::new();
    // swarm: subset of forms enabled in this run
    let mut forms: Vec<Form> = FORMS.iter().copied().filter(|_| rng.chance(2, 3)).collect();
    if forms.len() < 2 {
        forms = vec![Form::Slice, Form::Iter, Form::Bytewise];
    }
    let class_w = [6u32, 20, 20, 18, 8, 14, 3];
    let class = CLASSES[rng.weighted(&class_w)];
    let mut tapes: Vec<Tape> = vec![gen_payload(&mut rng, class)];
    let use_virtual = class != Class::Buffer && rng.chance(1, 6);
    let mut budget: usize = rng.range(4, 36) as usize;
    let nslots = rng.range(1, NSLOTS as u64) as usize;
    let mut cur: Vec<Option<Cursor>> = (0..NSLOTS).map(|_| None).collect();
    cur[0] = Some(Cursor { tape: 0, pos: 0 });
    if use_virtual {
        tapes[0] = if rng.chance(3, 4) { high_suffix(&mut rng) } else { gen_payload(&mut rng, Class::Words) };
        let total = virtual_total(&mut rng);
        let n = total.saturating_sub(tapes[0].bytes.len() as u64);
        // sometimes some real bytes first
        if rng.chance(1, 3) {
            let pn = rng.range(1, 20) as usize;
            let pre = rng.bytes(pn);
            ops.push(Op::Feed { slot: 0, form: pick_form(&mut rng, &forms), bytes: pre });
        }
        if rng.chance(1, 3) && n > 10 {
            let a = rng.range(1, n - 1);
            ops.push(Op::Skip { slot: 0, n: a });
            ops.push(Op::Skip { slot: 0, n: n - a });
        } else {
            ops.push(Op::Skip { slot: 0, n });
        }
    }
    let mut guard = 0;
    loop {
        guard += 1;
        if guard > 200 || budget == 0 {
            break;
        }
        // active slots with data left
        let active: Vec<usize> = (0..NSLOTS)
            .filter(|&i| cur[i].as_ref().map(|c| c.pos < tapes[c.tape].bytes.len()).unwrap_or(false))
            .collect();
        if active.is_empty() {
            break;
        }
        let si = *rng.pick(&active);
        match rng.below(20) {
            0 | 1 => ops.push(Op::Fin { slot: si as u8 }),
            2 if nslots > 1 => {
                let dst = (si + 1 + rng.usize_below(nslots - 1)) % nslots;
                if dst != si {
                    ops.push(Op::Clone { src: si as u8, dst: dst as u8, via: rng.below(2) as u8 });
                    let c = cur[si].as_ref().unwrap();
                    let mut nc = Cursor { tape: c.tape, pos: c.pos };
                    if rng.chance(1, 2) {
                        // diverge: the clone continues on a different tape
                        let cl = CLASSES[rng.weighted(&[6, 10, 10, 10, 4, 0, 0])];
                        tapes.push(gen_payload(&mut rng, cl));
                        nc = Cursor { tape: tapes.len() - 1, pos: 0 };
                    }
                    cur[dst] = Some(nc);
                }
            }
            3 if rng.chance(1, 4) => {
                let z = *rng.pick(&[1u64, 6, 7, 8, 13, 14, 64, 70000]);
                ops.push(Op::Skip { slot: si as u8, n: z });
            }
            _ => {
                let c = cur[si].as_mut().unwrap();
                let t = &tapes[c.tape];
                // one or a few chunks
                let mut b = 1 + rng.usize_below(3).min(budget.saturating_sub(1));
                let to = t.bytes.len();
                let before = ops.len();
                let mut pos = c.pos;
                while pos < to && b > 0 {
                    let mut one = 1usize;
                    let np = {
                        let mut form = pick_form(&mut rng, &forms);
                        let mut n = chunk_len(&mut rng, pos, to, &t.marks);
                        if form == Form::AddArr {
                            let fit: Vec<usize> = [1usize, 3, 7, 8, 64].iter().copied().filter(|&s| s <= to - pos).collect();
                            if fit.is_empty() {
                                form = Form::AddSlice;
                            } else {
                                n = *rng.pick(&fit);
                            }
                        }
                        ops.push(Op::Feed { slot: si as u8, form, bytes: t.bytes[pos..pos + n].to_vec() });
                        one -= 1;
                        let _ = one;
                        pos + n
                    };
                    pos = np;
                    b -= 1;
                }
                c.pos = pos;
                budget = budget.saturating_sub(ops.len() - before);
            }
        }
    }
    // flush what is left, then finalise everything
    for i in 0..NSLOTS {
        if let Some(c) = cur[i].as_mut() {
            let t = &tapes[c.tape];
            if c.pos < t.bytes.len() {
                let mut b = 3usize;
                c.pos = gen_feeds(&mut rng, &mut ops, i as u8, t, c.pos, t.bytes.len(), &forms, &mut b);
            }
            ops.push(Op::Fin { slot: i as u8 });
        }
    }
    // one-shot entry points over the whole payload of a slot
    for i in 0..NSLOTS {
        if cur[i].is_some() && rng.chance(1, 2) {
            let kind = match rng.below(3) {
                0 => Shot::Buf,
                _ => {
                    let total: usize = 200_000;
                    let tail = if rng.chance(1, 4) { *rng.pick(&[1u32, 5, 63]) } else { 0 };
                    let reads = if tail > 0 && rng.chance(1, 2) { Vec::new() } else { gen_reads(&mut rng, total.min(70_000)) };
                    Shot::Stream { reads, scribble: rng.chance(1, 2), tail }
                }
            };
            ops.push(Op::Shot { slot: i as u8, kind });
        }
    }
    ops
}

/// Dirtying first history for reset tests, by kind.
fn gen_h1(rng: &mut Rng, ops: &mut Vec<Op>, slot: u8, forms: &[Form]) {
    match rng.below(8) {
        0 => {} // nothing at all
        1 => {
            // small, no elimination
            let t = gen_payload(rng, Class::Tiny);
            let mut b = 3;
            gen_feeds(rng, ops, slot, &t, 0, t.bytes.len(), forms, &mut b);
        }
        2 | 3 => {
            // elimination by random data
            let mut t = gen_payload(rng, Class::Random);
            if t.bytes.len() < 3000 {
                let extra = rng.bytes(3000);
                t.bytes.extend_from_slice(&extra);
            }
            let mut b = 4;
            gen_feeds(rng, ops, slot, &t, 0, t.bytes.len(), forms, &mut b);
        }
        4 | 5 => {
            // virtual prefix + crafted words: elimination up to high indices, last hash
            let t = high_suffix(rng);
            let total = virtual_total(rng);
            ops.push(Op::Skip { slot, n: total.saturating_sub(t.bytes.len() as u64) });
            let mut b = 3;
            gen_feeds(rng, ops, slot, &t, 0, t.bytes.len(), forms, &mut b);
        }
        6 => {
            // level-30 word without hint: all contexts + last hash active
            let mut t = high_suffix(rng);
            let mut pre = Tape { bytes: Vec::new(), marks: Vec::new() };
            pre.push_word(30, rng);
            pre.bytes.extend_from_slice(&t.bytes);
            t.bytes = pre.bytes;
            let mut b = 3;
            gen_feeds(rng, ops, slot, &t, 0, t.bytes.len(), forms, &mut b);
        }
        _ => {
            // tiny declared size (fork limit 1), matched or not
            let t = gen_payload(rng, Class::Words);
            let d = if rng.chance(1, 2) { t.bytes.len() as u64 } else { rng.below(200) };
            ops.push(Op::Declare { slot, size: d, usize_api: rng.chance(1, 3) });
            let mut b = 3;
            gen_feeds(rng, ops, slot, &t, 0, t.bytes.len(), forms, &mut b);
        }
    }
    if rng.chance(1, 3) {
        ops.push(Op::Fin { slot });
    }
}

fn odd_size(rng: &mut Rng, planned: u64, current: u64) -> u64 {
    match rng.below(12) {
        0 => current,
        1 => current.wrapping_add(1),
        2 => current.saturating_sub(1),
        3 => planned.wrapping_add(1),
        4 => planned.saturating_sub(1),
        5 => {
            let k = rng.below(31);
            (192u64 << k).wrapping_add(rng.range(0, 2)).wrapping_sub(1)
        }
        6 => MAX,
        7 => MAX + 1,
        8 => u64::MAX,
        9 => 0,
        10 => rng.below(5000),
        _ => planned,
    }
}

/// Twin-mode history for C12.
pub fn generate_c12(seed: u64) -> Vec<Op> {
    let mut rng = Rng::new(seed);
    if rng.chance(1, 6) {
        return generate_c12_sweep(&mut rng);
    }
    let mut ops = Vec::new();
    let mut forms: Vec<Form> = FORMS.iter().copied().filter(|_| rng.chance(1, 2)).collect();
    if forms.is_empty() {
        forms = vec![Form::Slice, Form::Bytewise];
    }
    let slot = rng.below(NSLOTS as u64) as u8;
    let with_reset = rng.chance(3, 5);
    if with_reset {
        gen_h1(&mut rng, &mut ops, slot, &forms);
        ops.push(Op::Reset { slot });
        if rng.chance(1, 10) {
            ops.push(Op::Reset { slot });
        }
    }
    // second history (or the only one)
    let kind = rng.below(10);
    let (prefix, tape): (u64, Tape) = match kind {
        0 | 1 => (0, gen_payload(&mut rng, Class::Tiny)),
        2 | 3 => {
            let mut t = gen_payload(&mut rng, Class::Random);
            let n = rng.range(5_000, 50_000) as usize;
            if rng.chance(1, 2) && t.bytes.len() < n {
                let extra = rng.bytes(n - t.bytes.len());
                t.bytes.extend_from_slice(&extra);
            }
            (0, t)
        }
        4 | 5 => {
            let t = high_suffix(&mut rng);
            let total = virtual_total(&mut rng);
            (total.saturating_sub(t.bytes.len() as u64), t)
        }
        6 => (0, gen_payload(&mut rng, Class::Words)),
        7 => (0, gen_payload(&mut rng, Class::Border)),
        8 => (0, gen_payload(&mut rng, Class::ZeroTail)),
        _ => (0, gen_payload(&mut rng, Class::Mixed)),
    };
    let planned = prefix + tape.bytes.len() as u64;
    // where the declarations go: positions in 0..=nchunks
    let nchunks = rng.range(1, 6) as usize;
    let mut cuts: Vec<usize> = (0..nchunks.saturating_sub(1)).map(|_| rng.usize_below(tape.bytes.len() + 1)).collect();
    cuts.sort_unstable();
    cuts.push(tape.bytes.len());
    let plan = rng.below(10);
    // plan 0..=4: one correct declaration at a random position (maybe repeated)
    // plan 5,6: a wrong declaration; 7: too large then correct; 8: correct then different; 9: none
    let decl_pos = rng.usize_below(nchunks + 2); // 0 = before prefix, nchunks+1 = after the last byte
    let mut emitted_decl = false;
    let mut current: u64 = 0;
    let mut emit_decl = |rng: &mut Rng, ops: &mut Vec<Op>, current: u64| {
        let ua = rng.chance(1, 4);
        match plan {
            0..=4 => {
                ops.push(Op::Declare { slot, size: planned, usize_api: ua });
                if rng.chance(1, 4) {
                    ops.push(Op::Declare { slot, size: planned, usize_api: !ua });
                }
                if rng.chance(1, 5) {
                    ops.push(Op::Declare { slot, size: odd_size(rng, planned, current), usize_api: ua });
                }
            }
            5 | 6 => {
                ops.push(Op::Declare { slot, size: odd_size(rng, planned, current), usize_api: ua });
                if rng.chance(1, 4) {
                    ops.push(Op::Declare { slot, size: planned, usize_api: ua });
                }
            }
            7 => {
                ops.push(Op::Declare { slot, size: MAX + 1 + rng.below(1 << 40), usize_api: ua });
                ops.push(Op::Declare { slot, size: planned, usize_api: ua });
            }
            8 => {
                ops.push(Op::Declare { slot, size: planned, usize_api: ua });
                ops.push(Op::Declare { slot, size: odd_size(rng, planned, current), usize_api: ua });
                ops.push(Op::Declare { slot, size: u64::MAX - rng.below(3), usize_api: ua });
            }
            _ => {}
        }
    };
    if decl_pos == 0 {
        emit_decl(&mut rng, &mut ops, current);
        emitted_decl = true;
    }
    if prefix > 0 {
        ops.push(Op::Skip { slot, n: prefix });
        current += prefix;
    }
    let mut pos = 0usize;
    for (ci, &cut) in cuts.iter().enumerate() {
        if decl_pos == ci + 1 && !emitted_decl {
            emit_decl(&mut rng, &mut ops, current);
            emitted_decl = true;
        }
        if cut > pos || ci == 0 {
            let mut b = 2;
            let np = gen_feeds(&mut rng, &mut ops, slot, &tape, pos, cut, &forms, &mut b);
            current += (np - pos) as u64;
            pos = np;
        }
        if rng.chance(1, 4) {
            ops.push(Op::Fin { slot });
        }
    }
    if !emitted_decl {
        emit_decl(&mut rng, &mut ops, current);
    }
    ops.push(Op::Fin { slot });
    if prefix == 0 && rng.chance(1, 3) {
        let kind = if rng.chance(1, 2) {
            Shot::Buf
        } else {
            let tail = if rng.chance(1, 4) { *rng.pick(&[1u32, 5, 63]) } else { 0 };
            Shot::File { reads: gen_reads(&mut rng, tape.bytes.len().min(70_000)), scribble: rng.chance(1, 2), tail }
        };
        ops.push(Op::Shot { slot, kind });
    }
    // occasionally: reset again and run a tiny third history
    if rng.chance(1, 6) {
        ops.push(Op::Reset { slot });
        let t = gen_payload(&mut rng, Class::Tiny);
        if rng.chance(1, 2) {
            ops.push(Op::Declare { slot, size: t.bytes.len() as u64, usize_api: false });
        }
        let mut b = 2;
        gen_feeds(&mut rng, &mut ops, slot, &t, 0, t.bytes.len(), &forms, &mut b);
        ops.push(Op::Fin { slot });
    }
    ops
}
