//! Scenario plumbing: batch runner, minimiser, replay files.

use crate::core::{Outcome, Violation};
use crate::json::{self, J};
use crate::rng::run_seed;
use std::collections::BTreeMap;
use std::time::Instant;

pub trait Scenario: Sync {
    type Op: Clone + Send + Sync;
    fn tag(&self) -> &'static str;
    fn generate(&self, seed: u64) -> Vec<Self::Op>;
    fn execute(&self, ops: &[Self::Op], verbose: bool) -> Outcome;
    fn op_to_json(&self, op: &Self::Op) -> J;
    fn op_from_json(&self, j: &J) -> Result<Self::Op, String>;
    fn simplify(&self, op: &Self::Op) -> Vec<Self::Op>;
    /// Is this run non-trivial (by the scenario's stated rule)?
    fn nontrivial(&self, out: &Outcome) -> bool;
    /// Faults injected by this op list: (kind, count) pairs, for evidence.
    fn faults(&self, _ops: &[Self::Op]) -> Vec<(String, u64)> {
        Vec::new()
    }
}

/// Runs of one worker are executed in chunks of this many on one fresh thread.
pub const CHUNK: u64 = 64;

fn on_fresh_thread<T: Send>(f: impl FnOnce() -> T + Send) -> T {
    if cfg!(miri) {
        // thread creation is slow there and every lite run is its own process
        return f();
    }
    std::thread::scope(|sc| {
        std::thread::Builder::new()
            .stack_size(4 << 20)
            .spawn_scoped(sc, f)
            .expect("cannot spawn a run thread")
            .join()
            .unwrap_or_else(|e| std::panic::resume_unwind(e))
    })
}

/// Execute operation lists one after the other on a **fresh thread** and
/// return the outcome of the last one.  Nothing the library keeps per thread
/// (a `thread_local!` cache, a scratch buffer) can then come from anywhere but
/// the `prelude` lists: a shrink evaluation and a replay start from the same
/// per-thread state, whatever ran before and however many workers there are.
pub fn hermetic_seq<S: Scenario>(scn: &S, prelude: &[Vec<S::Op>], ops: &[S::Op], verbose: bool) -> Outcome {
    on_fresh_thread(|| {
        for p in prelude {
            let _ = scn.execute(p, false);
        }
        scn.execute(ops, verbose)
    })
}

/// One operation list on a fresh thread.
pub fn hermetic<S: Scenario>(scn: &S, ops: &[S::Op], verbose: bool) -> Outcome {
    hermetic_seq(scn, &[], ops, verbose)
}

pub struct FoundViolation {
    pub run: u64,
    pub run_seed: u64,
    pub v: Violation,
    pub replay_path: Option<String>,
    pub ops_before: usize,
    pub ops_after: usize,
    pub shrink_evals: usize,
}

pub struct BatchResult {
    pub runs: u64,
    pub steps: u64,
    pub lines: u64,
    pub nontrivial: u64,
    pub distinct_nontrivial: u64,
    pub distinct_all: u64,
    pub probes: BTreeMap<String, u64>,
    /// number of runs in which each probe fired at least once
    pub probe_runs: BTreeMap<String, u64>,
    pub faults_configured: BTreeMap<String, u64>,
    pub faults_fired: BTreeMap<String, u64>,
    pub violations: Vec<FoundViolation>,
    pub samples: Vec<J>,
    pub wall_ms: u128,
    pub digest_of_digests: u64,
    pub classes: std::collections::BTreeSet<u64>,
}

/// Execute runs `start..start+count` of the scenario on `workers` threads.
/// Run i is executed by worker i mod W and results are merged in run order,
/// so the output does not depend on W.
pub fn run_batch<S: Scenario>(
    scn: &S,
    master_seed: u64,
    start: u64,
    count: u64,
    workers: usize,
    props: &[String],
    replay_dir: &str,
    config: &str,
    digests_path: Option<&str>,
    n_samples: usize,
    do_shrink: bool,
) -> BatchResult {
    let t0 = Instant::now();
    let workers = workers.max(1);
    struct Partial {
        digests: Vec<(u64, u64, u64, u64)>,
        steps: u64,
        lines: u64,
        nontrivial: u64,
        probes: BTreeMap<String, u64>,
        probe_runs: BTreeMap<String, u64>,
        faults: BTreeMap<String, u64>,
        viol: Vec<(u64, Violation)>,
        first_nontrivial: Vec<u64>,
        classes: std::collections::BTreeSet<u64>,
    }
    let mut partials: Vec<Partial> = Vec::new();
    std::thread::scope(|sc| {
        let mut hs = Vec::new();
        for w in 0..workers {
            hs.push(sc.spawn(move || {
                let mut p = Partial {
                    digests: Vec::new(),
                    steps: 0,
                    lines: 0,
                    nontrivial: 0,
                    probes: BTreeMap::new(),
                    probe_runs: BTreeMap::new(),
                    faults: BTreeMap::new(),
                    viol: Vec::new(),
                    first_nontrivial: Vec::new(),
                    classes: std::collections::BTreeSet::new(),
                };
                // Runs are executed in chunks of CHUNK on one fresh thread each: a
                // chunk starts from clean per-thread library state, so a violation
                // that needs state left behind by earlier runs is reproducible from
                // the runs of its own chunk (see the violation handling below).
                let mut next = start + w as u64;
                while next < start + count {
                  let chunk_first = next;
                  let pr = &mut p;
                  next = on_fresh_thread(move || {
                   let p = pr;
                   let mut i = chunk_first;
                   let mut in_chunk = 0u64;
                   while i < start + count && in_chunk < CHUNK {
                    in_chunk += 1;
                    let seed = run_seed(master_seed, scn.tag(), i);
                    let ops = scn.generate(seed);
                    let out = scn.execute(&ops, false);
                    let nontrivial = scn.nontrivial(&out);
                    for (k, n) in scn.faults(&ops) {
                        *p.faults.entry(k).or_insert(0) += n;
                    }
                    p.steps += out.steps as u64;
                    p.lines += out.n_lines;
                    if nontrivial {
                        p.nontrivial += 1;
                        if p.first_nontrivial.len() < n_samples {
                            p.first_nontrivial.push(i);
                        }
                    }
                    p.classes.extend(out.classes.iter().copied());
                    for (k, v) in &out.probes {
                        *p.probes.entry(k.to_string()).or_insert(0) += v;
                        *p.probe_runs.entry(k.to_string()).or_insert(0) += 1;
                    }
                    let flags: u64 = (nontrivial as u64) | ((!out.violations.is_empty() as u64) << 1);
                    p.digests.push((i, out.digest_portable, out.digest_std, flags));
                    for v in out.violations {
                        if p.viol.len() < 256 {
                            p.viol.push((i, v));
                        }
                    }
                    i += workers as u64;
                   }
                   i
                  });
                }
                p
            }));
        }
        for h in hs {
            partials.push(h.join().expect("worker panicked outside a guarded region"));
        }
    });
    let mut res = BatchResult {
        runs: 0,
        steps: 0,
        lines: 0,
        nontrivial: 0,
        distinct_nontrivial: 0,
        distinct_all: 0,
        probes: BTreeMap::new(),
        probe_runs: BTreeMap::new(),
        faults_configured: BTreeMap::new(),
        faults_fired: BTreeMap::new(),
        violations: Vec::new(),
        samples: Vec::new(),
        wall_ms: 0,
        digest_of_digests: crate::core::FNV_INIT,
        classes: std::collections::BTreeSet::new(),
    };
    // merge (sums are order-independent; lists are sorted by run index)
    let mut digests: Vec<(u64, u64, u64, u64)> = Vec::new();
    let mut viol: Vec<(u64, Violation)> = Vec::new();
    let mut sample_runs: Vec<u64> = Vec::new();
    for p in partials {
        res.steps += p.steps;
        res.lines += p.lines;
        res.nontrivial += p.nontrivial;
        for (k, v) in p.probes {
            *res.probes.entry(k).or_insert(0) += v;
        }
        for (k, v) in p.probe_runs {
            *res.probe_runs.entry(k).or_insert(0) += v;
        }
        for (k, v) in p.faults {
            *res.faults_configured.entry(k).or_insert(0) += v;
        }
        res.classes.extend(p.classes);
        digests.extend(p.digests);
        viol.extend(p.viol);
        sample_runs.extend(p.first_nontrivial);
    }
    digests.sort_unstable_by_key(|x| x.0);
    viol.sort_by_key(|x| x.0);
    sample_runs.sort_unstable();
    sample_runs.truncate(n_samples);
    res.runs = digests.len() as u64;
    let mut dn: Vec<u64> = Vec::new();
    let mut da: Vec<u64> = Vec::new();
    let mut digest_bytes: Vec<u8> = Vec::with_capacity(digests.len() * 24);
    for (_, dp, ds, flags) in &digests {
        da.push(*ds);
        if flags & 1 != 0 {
            dn.push(*ds);
        }
        digest_bytes.extend_from_slice(&dp.to_le_bytes());
        digest_bytes.extend_from_slice(&ds.to_le_bytes());
        digest_bytes.extend_from_slice(&flags.to_le_bytes());
    }
    let all_first: Vec<u64> = digests.iter().take(2).map(|x| x.0).collect();
    drop(digests);
    let mut seen_checks: BTreeMap<(String, String), u32> = BTreeMap::new();
    res.digest_of_digests = crate::core::fnv64_of(&digest_bytes);
    dn.sort_unstable();
    dn.dedup();
    da.sort_unstable();
    da.dedup();
    res.distinct_nontrivial = dn.len() as u64;
    res.distinct_all = da.len() as u64;
    if let Some(p) = digests_path {
        let _ = std::fs::write(p, &digest_bytes);
    }
    // fault "fired" probes are reported by executors as probes named fault.fired.<kind>
    for (k, v) in &res.probes {
        if let Some(kind) = k.strip_prefix("fault.fired.") {
            res.faults_fired.insert(kind.to_string(), *v);
        }
    }
    // samples: regenerate the op lists of the first few non-trivial runs
    if sample_runs.is_empty() && n_samples > 0 {
        sample_runs = all_first;
    }
    for i in sample_runs {
        let seed = run_seed(master_seed, scn.tag(), i);
        let ops = scn.generate(seed);
        let out = hermetic(scn, &ops, true);
        let mut lines: Vec<J> = out.lines.iter().take(12).map(|l| J::Str(abridge_str(l, 200))).collect();
        if out.lines.len() > 12 {
            lines.push(J::Str(format!("... ({} more log lines)", out.lines.len() - 12)));
        }
        res.samples.push(J::obj(vec![
            ("run", J::u(i)),
            ("run_seed", J::u(seed)),
            ("ops", J::Arr(ops.iter().take(14).map(|o| abridge(scn.op_to_json(o))).collect())),
            ("n_ops", J::u(ops.len() as u64)),
            ("log_head", J::Arr(lines)),
        ]));
    }
    // violations: one per (check, sig) class is minimised and written out
    for (i, v) in &viol {
        {
            if !props.is_empty() && !props.iter().any(|p| p == v.property()) {
                continue;
            }
            let key = (v.check.to_string(), v.sig.clone());
            let n = seen_checks.entry(key).or_insert(0);
            *n += 1;
            if *n > 1 {
                continue;
            }
            // at most a dozen classes are minimised and written out per batch
            if res.violations.len() >= 12 {
                continue;
            }
            let seed = run_seed(master_seed, scn.tag(), *i);
            let ops = scn.generate(seed);
            let before = ops.len();
            // Does the run fail on its own, from clean per-thread state?  If not,
            // it needs what earlier runs of its chunk left behind in the library:
            // those runs become the replay's prelude (then reduced to the ones
            // that matter).
            let mut prelude: Vec<Vec<S::Op>> = Vec::new();
            let mut reproducible = true;
            if !fails(scn, &[], &ops, v.check, &v.sig, false) {
                let w = (*i - start) % workers as u64;
                let j = (*i - start - w) / workers as u64;
                let j0 = (j / CHUNK) * CHUNK;
                for jj in j0..j {
                    let idx = start + w + jj * workers as u64;
                    prelude.push(scn.generate(run_seed(master_seed, scn.tag(), idx)));
                }
                if !fails(scn, &prelude, &ops, v.check, &v.sig, false) {
                    reproducible = false;
                    prelude.clear();
                } else {
                    let mut k = 0;
                    let t_red = Instant::now();
                    while k < prelude.len() && t_red.elapsed().as_secs() < 90 {
                        let mut cand = prelude.clone();
                        cand.remove(k);
                        if fails(scn, &cand, &ops, v.check, &v.sig, false) {
                            prelude = cand;
                        } else {
                            k += 1;
                        }
                    }
                }
            }
            let (min_ops, evals) =
                if do_shrink && reproducible { shrink(scn, &prelude, ops, v.check, &v.sig, 20_000) } else { (ops, 0) };
            let out = hermetic_seq(scn, &prelude, &min_ops, true);
            let mv = out
                .violations
                .iter()
                .find(|x| x.check == v.check && x.sig == v.sig)
                .or_else(|| out.violations.iter().find(|x| x.check == v.check))
                .cloned()
                .unwrap_or_else(|| v.clone());
            let path = format!(
                "{}/{}-{}-{}-{}-{:08x}.json",
                replay_dir,
                v.check,
                config,
                master_seed,
                i,
                crate::core::fnv64_of(v.sig.as_bytes()) as u32
            );
            let doc = replay_doc(scn, &prelude, &min_ops, &mv, config, master_seed, *i, seed, &out);
            let wrote = reproducible && std::fs::create_dir_all(replay_dir).is_ok() && std::fs::write(&path, doc.to_string()).is_ok();
            res.violations.push(FoundViolation {
                run: *i,
                run_seed: seed,
                v: mv,
                replay_path: if wrote { Some(path) } else { None },
                ops_before: before,
                ops_after: min_ops.len(),
                shrink_evals: evals,
            });
        }
    }
    res.wall_ms = t0.elapsed().as_millis();
    res
}

fn abridge_str(s: &str, n: usize) -> String {
    if s.len() <= n {
        s.to_string()
    } else {
        let mut end = n;
        while !s.is_char_boundary(end) {
            end -= 1;
        }
        format!("{}...({} chars)", &s[..end], s.len())
    }
}

/// Shorten long hex / text payloads for evidence samples.
pub fn abridge(j: J) -> J {
    match j {
        J::Str(s) if s.len() > 64 => J::Str(abridge_str(&s, 48)),
        J::Arr(a) => {
            let n = a.len();
            let mut v: Vec<J> = a.into_iter().take(16).map(abridge).collect();
            if n > 16 {
                v.push(J::Str(format!("...({} items)", n)));
            }
            J::Arr(v)
        }
        J::Obj(o) => J::Obj(o.into_iter().map(|(k, v)| (k, abridge(v))).collect()),
        x => x,
    }
}

pub fn replay_doc<S: Scenario>(
    scn: &S,
    prelude: &[Vec<S::Op>],
    ops: &[S::Op],
    v: &Violation,
    config: &str,
    master_seed: u64,
    run: u64,
    run_seed: u64,
    out: &Outcome,
) -> J {
    J::obj(vec![
        ("format", J::u(1)),
        ("property", J::s(v.property())),
        ("check", J::s(v.check)),
        ("sig", J::Str(v.sig.clone())),
        ("detail", J::Str(v.detail.clone())),
        ("step", J::u(v.step as u64)),
        ("config", J::s(config)),
        ("scenario", J::s(scn.tag())),
        ("seed", J::u(master_seed)),
        ("run", J::u(run)),
        ("run_seed", J::u(run_seed)),
        ("digest", J::Str(format!("{:016x}", out.digest_std))),
        ("no_ff", J::Bool(crate::gen::NO_FF.load(std::sync::atomic::Ordering::Relaxed))),
        // operation lists executed first on the same fresh thread (only when the
        // violation needs per-thread state that earlier runs left in the library)
        ("prelude", J::Arr(prelude.iter().map(|l| J::Arr(l.iter().map(|o| scn.op_to_json(o)).collect())).collect())),
        ("ops", J::Arr(ops.iter().map(|o| scn.op_to_json(o)).collect())),
        ("faults", J::Arr(scn.faults(ops).into_iter().map(|(k, n)| J::obj(vec![("kind", J::Str(k)), ("count", J::u(n))])).collect())),
        ("log", J::Arr(out.lines.iter().map(|l| J::Str(abridge_str(l, 400))).collect())),
    ])
}

fn fails<S: Scenario>(scn: &S, prelude: &[Vec<S::Op>], ops: &[S::Op], check: &str, sig: &str, strict_sig: bool) -> bool {
    let out = hermetic_seq(scn, prelude, ops, false);
    out.violations.iter().any(|v| v.check == check && (!strict_sig || v.sig == sig))
}

/// Delta debugging over the explicit op list, keeping the same check id (and
/// signature class) as the failure criterion.
pub fn shrink<S: Scenario>(
    scn: &S,
    prelude: &[Vec<S::Op>],
    mut ops: Vec<S::Op>,
    check: &str,
    sig: &str,
    budget_ms: u128,
) -> (Vec<S::Op>, usize) {
    let t0 = Instant::now();
    let mut evals = 0usize;
    let over = |evals: usize| evals > 6000 || t0.elapsed().as_millis() > budget_ms;
    loop {
        let mut changed = false;
        // 1. remove chunks of operations
        let mut chunk = (ops.len() / 2).max(1);
        loop {
            let mut i = 0;
            while i < ops.len() && ops.len() > 1 {
                if over(evals) {
                    return (ops, evals);
                }
                let end = (i + chunk).min(ops.len());
                let mut cand: Vec<S::Op> = Vec::with_capacity(ops.len());
                cand.extend_from_slice(&ops[..i]);
                cand.extend_from_slice(&ops[end..]);
                evals += 1;
                if !cand.is_empty() && fails(scn, prelude, &cand, check, sig, true) {
                    ops = cand;
                    changed = true;
                } else {
                    i += chunk;
                }
            }
            if chunk == 1 {
                break;
            }
            chunk = (chunk / 2).max(1);
        }
        // 2. simplify single operations
        let mut i = 0;
        while i < ops.len() {
            let mut progressed = true;
            let mut rounds = 0;
            while progressed && rounds < 40 {
                progressed = false;
                rounds += 1;
                for cand_op in scn.simplify(&ops[i]) {
                    if over(evals) {
                        return (ops, evals);
                    }
                    let mut cand = ops.clone();
                    cand[i] = cand_op;
                    evals += 1;
                    if fails(scn, prelude, &cand, check, sig, true) {
                        ops = cand;
                        progressed = true;
                        changed = true;
                        break;
                    }
                }
            }
            i += 1;
        }
        if !changed {
            break;
        }
    }
    (ops, evals)
}

/// Re-execute a replay file; returns (reproduced, report).
pub fn replay<S: Scenario>(scn: &S, doc: &J) -> Result<(bool, J), String> {
    let mut ops = Vec::new();
    for o in doc.ga("ops")? {
        ops.push(scn.op_from_json(o)?);
    }
    let mut prelude: Vec<Vec<S::Op>> = Vec::new();
    if let Some(J::Arr(lists)) = doc.get("prelude") {
        for l in lists {
            let mut v = Vec::new();
            if let J::Arr(items) = l {
                for o in items {
                    v.push(scn.op_from_json(o)?);
                }
            }
            prelude.push(v);
        }
    }
    let check = doc.gs("check")?.to_string();
    let out = hermetic_seq(scn, &prelude, &ops, true);
    let hit = out.violations.iter().find(|v| v.check == check).cloned();
    let rep = J::obj(vec![
        ("check", J::Str(check)),
        ("reproduced", J::Bool(hit.is_some())),
        ("detail", J::Str(hit.as_ref().map(|v| v.detail.clone()).unwrap_or_default())),
        ("sig", J::Str(hit.as_ref().map(|v| v.sig.clone()).unwrap_or_default())),
        ("digest", J::Str(format!("{:016x}", out.digest_std))),
        ("digest_expected", J::Str(doc.gs("digest").unwrap_or("").to_string())),
        ("all_violations", J::Arr(out.violations.iter().map(|v| J::s(v.check)).collect())),
        ("log", J::Arr(out.lines.iter().map(|l| J::Str(abridge_str(l, 400))).collect())),
    ]);
    Ok((hit.is_some(), rep))
}

pub fn batch_to_json(tag: &str, config: &str, seed: u64, start: u64, res: &BatchResult) -> J {
    let map = |m: &BTreeMap<String, u64>| J::Obj(m.iter().map(|(k, v)| (k.clone(), J::u(*v))).collect());
    J::obj(vec![
        ("scenario", J::s(tag)),
        ("config", J::s(config)),
        ("seed", J::u(seed)),
        ("start", J::u(start)),
        ("runs", J::u(res.runs)),
        ("steps", J::u(res.steps)),
        ("log_lines", J::u(res.lines)),
        ("nontrivial", J::u(res.nontrivial)),
        ("distinct_nontrivial", J::u(res.distinct_nontrivial)),
        ("distinct_all", J::u(res.distinct_all)),
        ("digest_of_digests", J::Str(format!("{:016x}", res.digest_of_digests))),
        ("wall_ms", J::u(res.wall_ms as u64)),
        ("state_classes", J::u(res.classes.len() as u64)),
        ("state_class_examples", J::Arr(res.classes.iter().take(12).map(|c| J::Str(format!("start={} end={} limit={} last={} declared={}", c >> 24, (c >> 16) & 0xff, (c >> 8) & 0xff, (c >> 1) & 1, c & 1))).collect())),
        ("probes", map(&res.probes)),
        ("probe_runs", map(&res.probe_runs)),
        ("faults_configured", map(&res.faults_configured)),
        ("faults_fired", map(&res.faults_fired)),
        ("samples", J::Arr(res.samples.clone())),
        (
            "violations",
            J::Arr(
                res.violations
                    .iter()
                    .map(|f| {
                        J::obj(vec![
                            ("property", J::s(f.v.property())),
                            ("check", J::s(f.v.check)),
                            ("sig", J::Str(f.v.sig.clone())),
                            ("detail", J::Str(f.v.detail.clone())),
                            ("run", J::u(f.run)),
                            ("run_seed", J::u(f.run_seed)),
                            ("replay", match &f.replay_path { Some(p) => J::Str(p.clone()), None => J::Null }),
                            ("ops_before", J::u(f.ops_before as u64)),
                            ("ops_after", J::u(f.ops_after as u64)),
                            ("shrink_evals", J::u(f.shrink_evals as u64)),
                        ])
                    })
                    .collect(),
            ),
        ),
    ])
}

pub fn load_doc(path: &str) -> Result<J, String> {
    let s = std::fs::read_to_string(path).map_err(|e| format!("{}: {}", path, e))?;
    json::parse(&s)
}
