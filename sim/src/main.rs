//! ffsim: deterministic simulation with fault injection for a4lg/ffuzzy.
//!
//! One binary per build configuration of ffuzzy.  See /verif/DESIGN.md.

mod core;
mod gen;
mod hookcheck;
#[cfg(feature = "std-easy")]
mod io;
mod json;
mod lite;
mod obj;
mod tgt;
mod reader;
mod rng;
mod scn;
mod tape;
mod words;

use crate::core::Outcome;
use crate::json::J;
use crate::scn::Scenario;

// ---------------------------------------------------------------------------
// Scenario bindings

pub struct C03Scn;
impl Scenario for C03Scn {
    type Op = gen::Op;
    fn tag(&self) -> &'static str {
        "c03"
    }
    fn generate(&self, seed: u64) -> Vec<gen::Op> {
        gen::generate_c03(seed)
    }
    fn execute(&self, ops: &[gen::Op], verbose: bool) -> Outcome {
        gen::execute(ops, verbose)
    }
    fn op_to_json(&self, op: &gen::Op) -> J {
        op.to_json()
    }
    fn op_from_json(&self, j: &J) -> Result<gen::Op, String> {
        gen::Op::from_json(j)
    }
    fn simplify(&self, op: &gen::Op) -> Vec<gen::Op> {
        op.simplify()
    }
    fn nontrivial(&self, out: &Outcome) -> bool {
        // at least two feed calls with different forms AND one of: elimination
        // reached, a call boundary strictly inside a trigger word, a clone
        // followed by divergent feeds, a virtual prefix >= 2^32
        let p = |k: &str| out.probes.get(k).copied().unwrap_or(0) > 0;
        p("gen.mixed_forms")
            && (p("gen.elim>=1") || p("gen.boundary_in_trigger_word") || p("gen.clone_diverged") || p("gen.virtual>=2^32"))
    }
}

pub struct C12Scn;
impl Scenario for C12Scn {
    type Op = gen::Op;
    fn tag(&self) -> &'static str {
        "c12"
    }
    fn generate(&self, seed: u64) -> Vec<gen::Op> {
        gen::generate_c12(seed)
    }
    fn execute(&self, ops: &[gen::Op], verbose: bool) -> Outcome {
        gen::execute(ops, verbose)
    }
    fn op_to_json(&self, op: &gen::Op) -> J {
        op.to_json()
    }
    fn op_from_json(&self, j: &J) -> Result<gen::Op, String> {
        gen::Op::from_json(j)
    }
    fn simplify(&self, op: &gen::Op) -> Vec<gen::Op> {
        op.simplify()
    }
    fn nontrivial(&self, out: &Outcome) -> bool {
        // contains a declaration or reset AND the engine state it acts on was
        // non-initial (declared mid-stream / finalised under an effective
        // declaration / reset of a dirty generator that is used afterwards)
        let p = |k: &str| out.probes.get(k).copied().unwrap_or(0) > 0;
        (p("reset.dirty") && p("reset.finalize_after"))
            || p("hint.exact_finalize")
            || p("hint.mismatch_finalize")
            || p("hint.too_large")
            || p("hint.twice_different")
    }
}

macro_rules! bind_scn {
    ($name:ident, $tag:literal, $m:ident, $gen:path, $nt:expr) => {
        pub struct $name;
        impl Scenario for $name {
            type Op = $m::Op;
            fn tag(&self) -> &'static str {
                $tag
            }
            fn generate(&self, seed: u64) -> Vec<$m::Op> {
                $gen(seed)
            }
            fn execute(&self, ops: &[$m::Op], verbose: bool) -> Outcome {
                $m::execute(ops, verbose)
            }
            fn op_to_json(&self, op: &$m::Op) -> J {
                op.to_json()
            }
            fn op_from_json(&self, j: &J) -> Result<$m::Op, String> {
                $m::Op::from_json(j)
            }
            fn simplify(&self, op: &$m::Op) -> Vec<$m::Op> {
                op.simplify()
            }
            fn nontrivial(&self, out: &Outcome) -> bool {
                let p = |k: &str| out.probes.get(k).copied().unwrap_or(0);
                let f: fn(&dyn Fn(&str) -> u64) -> bool = $nt;
                f(&p)
            }
        }
    };
}

// C11: at least one in-place overwrite whose destination previously held
// longer content, or at least one out-of-contract constructor call.
bind_scn!(C11Scn, "c11", obj, obj::generate_c11, |p| p("obj.overwrite_longer_prev") > 0
    || p("obj.ctor_refused") > 0
    || p("obj.ctor_out_of_contract_returned") > 0);
// C15: at least two conversions with a previously used destination, or a
// refused narrowing.
bind_scn!(C15Scn, "c15", obj, obj::generate_c15, |p| (p("conv.dirty_destination") > 0
    && p("conv.lossless") + p("conv.lossy") >= 2)
    || p("conv.narrow_refused") > 0);
// C17: a re-initialisation after which a missing clear would be observable
// (the previous hash had a symbol position set that the new one has not), or
// a position array rebuilt over earlier content.
bind_scn!(C17Scn, "c17", tgt, tgt::generate, |p| p("tgt.reinit_stale_bits_possible") > 0 || p("pa.reinit") > 0);

macro_rules! bind_lite {
    ($name:ident, $tag:literal, $m:ident, $gen:expr) => {
        pub struct $name;
        impl Scenario for $name {
            type Op = $m::Op;
            fn tag(&self) -> &'static str {
                $tag
            }
            fn generate(&self, seed: u64) -> Vec<$m::Op> {
                ($gen)(seed)
            }
            fn execute(&self, ops: &[$m::Op], verbose: bool) -> Outcome {
                $m::execute(ops, verbose)
            }
            fn op_to_json(&self, op: &$m::Op) -> J {
                op.to_json()
            }
            fn op_from_json(&self, j: &J) -> Result<$m::Op, String> {
                $m::Op::from_json(j)
            }
            fn simplify(&self, op: &$m::Op) -> Vec<$m::Op> {
                op.simplify()
            }
            fn nontrivial(&self, out: &Outcome) -> bool {
                out.steps >= 3
            }
        }
    };
}
// "Lite" variants for the Miri batch (C14.ub_free): same executors, operation
// lists cut down to a few KiB of hashing per run.
bind_lite!(C03Lite, "c03l", gen, |s| lite::c03(s, false));
// one call of 2^32 bytes or more (thorough tier of C03)
bind_lite!(C03Huge, "c03huge", gen, gen::generate_c03_huge);
bind_lite!(C12Lite, "c12l", gen, |s| lite::c03(s, true));
bind_lite!(C11Lite, "c11l", obj, |s| lite::c11(s, false));
bind_lite!(C15Lite, "c15l", obj, |s| lite::c11(s, true));
bind_lite!(C17Lite, "c17l", tgt, lite::c17);
#[cfg(feature = "std-easy")]
bind_lite!(IoLite, "iol", io, lite::io);

#[cfg(feature = "std-easy")]
pub struct IoScn;
#[cfg(feature = "std-easy")]
impl Scenario for IoScn {
    type Op = io::Op;
    fn tag(&self) -> &'static str {
        "io"
    }
    fn generate(&self, seed: u64) -> Vec<io::Op> {
        io::generate(seed)
    }
    fn execute(&self, ops: &[io::Op], verbose: bool) -> Outcome {
        io::execute(ops, verbose)
    }
    fn op_to_json(&self, op: &io::Op) -> J {
        op.to_json()
    }
    fn op_from_json(&self, j: &J) -> Result<io::Op, String> {
        io::Op::from_json(j)
    }
    fn simplify(&self, op: &io::Op) -> Vec<io::Op> {
        op.simplify()
    }
    fn nontrivial(&self, out: &Outcome) -> bool {
        // a fault fired with >= 1 byte already consumed by the generator
        // (in-flight state), or the metadata disagreed by a non-zero amount
        let p = |k: &str| out.probes.get(k).copied().unwrap_or(0) > 0;
        p("fault.inflight") || p("fault.fired.metadata_mismatch") || p("fault.fired.early_eof")
    }
    fn faults(&self, ops: &[io::Op]) -> Vec<(String, u64)> {
        io::faults(ops)
    }
}

// ---------------------------------------------------------------------------

fn arg<'a>(args: &'a [String], name: &str) -> Option<&'a str> {
    args.iter().position(|a| a == name).and_then(|i| args.get(i + 1)).map(|s| s.as_str())
}

fn features() -> Vec<&'static str> {
    let mut v = Vec::new();
    if cfg!(feature = "std-easy") {
        v.push("std");
        v.push("easy-functions");
    }
    if cfg!(feature = "f-unsafe") {
        v.push("unsafe");
    }
    if cfg!(feature = "f-unchecked") {
        v.push("unchecked");
    }
    if cfg!(feature = "f-rfnv") {
        v.push("opt-reduce-fnv-table");
    }
    if cfg!(feature = "f-strict") {
        v.push("strict-parser");
    }
    if cfg!(debug_assertions) {
        v.push("debug-assertions");
    }
    v
}

fn run_cmd<S: Scenario>(scn: &S, args: &[String]) -> i32 {
    let seed: u64 = arg(args, "--seed").and_then(|s| s.parse().ok()).unwrap_or(1);
    let start: u64 = arg(args, "--start").and_then(|s| s.parse().ok()).unwrap_or(0);
    let count: u64 = arg(args, "--count").and_then(|s| s.parse().ok()).unwrap_or(1000);
    let workers: usize = arg(args, "--workers").and_then(|s| s.parse().ok()).unwrap_or(1);
    let samples: usize = arg(args, "--samples").and_then(|s| s.parse().ok()).unwrap_or(3);
    let config = arg(args, "--config").unwrap_or("unnamed");
    let replay_dir = arg(args, "--replay-dir").unwrap_or("/verif/replays");
    let digests = arg(args, "--digests");
    let props: Vec<String> = arg(args, "--props").map(|s| s.split(',').map(|x| x.to_string()).collect()).unwrap_or_default();
    let do_shrink = !args.iter().any(|a| a == "--no-shrink");
    let res = scn::run_batch(scn, seed, start, count, workers, &props, replay_dir, config, digests, samples, do_shrink);
    let mut doc = scn::batch_to_json(scn.tag(), config, seed, start, &res);
    if let J::Obj(o) = &mut doc {
        o.push(("features".to_string(), J::Arr(features().into_iter().map(J::s).collect())));
    }
    println!("{}", doc.to_string());
    if res.violations.is_empty() {
        0
    } else {
        1
    }
}

fn dump_cmd<S: Scenario>(scn: &S, args: &[String]) -> i32 {
    let seed: u64 = arg(args, "--seed").and_then(|s| s.parse().ok()).unwrap_or(1);
    let run: u64 = arg(args, "--run").and_then(|s| s.parse().ok()).unwrap_or(0);
    let rs = rng::run_seed(seed, scn.tag(), run);
    let ops = scn.generate(rs);
    let mut fields = vec![
        ("scenario", J::s(scn.tag())),
        ("seed", J::u(seed)),
        ("run", J::u(run)),
        ("run_seed", J::u(rs)),
        ("ops", J::Arr(ops.iter().map(|o| scn.op_to_json(o)).collect())),
    ];
    if args.iter().any(|a| a == "--exec") {
        let out = scn::hermetic(scn, &ops, true);
        fields.push(("digest_portable", J::Str(format!("{:016x}", out.digest_portable))));
        fields.push(("digest_std", J::Str(format!("{:016x}", out.digest_std))));
        fields.push(("log", J::Arr(out.lines.iter().map(|l| J::Str(l.clone())).collect())));
        fields.push(("violations", J::Arr(out.violations.iter().map(|v| J::s(v.check)).collect())));
    }
    println!("{}", J::obj(fields).to_string());
    0
}

fn replay_cmd(path: &str) -> i32 {
    let doc = match scn::load_doc(path) {
        Ok(d) => d,
        Err(e) => {
            eprintln!("replay: {}", e);
            return 2;
        }
    };
    if doc.get("no_ff").and_then(|x| x.bool_()).unwrap_or(false) {
        gen::NO_FF.store(true, std::sync::atomic::Ordering::Relaxed);
    }
    let tag = doc.gs("scenario").unwrap_or("").to_string();
    let r = match tag.as_str() {
        "c03" | "c03l" | "c03huge" => scn::replay(&C03Scn, &doc),
        "c12" | "c12l" => scn::replay(&C12Scn, &doc),
        "c11" | "c11l" => scn::replay(&C11Scn, &doc),
        "c15" | "c15l" => scn::replay(&C15Scn, &doc),
        "c17" | "c17l" => scn::replay(&C17Scn, &doc),
        #[cfg(feature = "std-easy")]
        "io" | "iol" => scn::replay(&IoScn, &doc),
        t => Err(format!("unknown scenario {}", t)),
    };
    match r {
        Ok((hit, rep)) => {
            println!("{}", rep.to_string());
            if hit {
                1
            } else {
                0
            }
        }
        Err(e) => {
            eprintln!("replay: {}", e);
            2
        }
    }
}

fn main() {
    // Panics inside guarded regions are expected outcomes; keep stderr quiet.
    if std::env::var_os("FFSIM_SHOW_PANICS").is_none() {
        std::panic::set_hook(Box::new(|_| {}));
    }
    let args: Vec<String> = std::env::args().collect();
    if args.iter().any(|a| a == "--no-ff") {
        gen::NO_FF.store(true, std::sync::atomic::Ordering::Relaxed);
    }
    if let Err(e) = words::verify() {
        eprintln!("trigger word table invalid: {}", e);
        std::process::exit(2);
    }
    let code = match args.get(1).map(|s| s.as_str()) {
        Some("run") => match arg(&args, "--scenario") {
            Some("c03") => run_cmd(&C03Scn, &args),
            Some("c12") => run_cmd(&C12Scn, &args),
            Some("c11") => run_cmd(&C11Scn, &args),
            Some("c15") => run_cmd(&C15Scn, &args),
            Some("c17") => run_cmd(&C17Scn, &args),
            Some("c03l") => run_cmd(&C03Lite, &args),
            Some("c03huge") => run_cmd(&C03Huge, &args),
            Some("c12l") => run_cmd(&C12Lite, &args),
            Some("c11l") => run_cmd(&C11Lite, &args),
            Some("c15l") => run_cmd(&C15Lite, &args),
            Some("c17l") => run_cmd(&C17Lite, &args),
            #[cfg(feature = "std-easy")]
            Some("iol") => run_cmd(&IoLite, &args),
            #[cfg(feature = "std-easy")]
            Some("io") => run_cmd(&IoScn, &args),
            s => {
                eprintln!("unknown scenario {:?}", s);
                2
            }
        },
        Some("dump") => match arg(&args, "--scenario") {
            Some("c03") => dump_cmd(&C03Scn, &args),
            Some("c12") => dump_cmd(&C12Scn, &args),
            Some("c11") => dump_cmd(&C11Scn, &args),
            Some("c15") => dump_cmd(&C15Scn, &args),
            Some("c17") => dump_cmd(&C17Scn, &args),
            Some("c03l") => dump_cmd(&C03Lite, &args),
            Some("c03huge") => dump_cmd(&C03Huge, &args),
            Some("c12l") => dump_cmd(&C12Lite, &args),
            Some("c11l") => dump_cmd(&C11Lite, &args),
            Some("c15l") => dump_cmd(&C15Lite, &args),
            Some("c17l") => dump_cmd(&C17Lite, &args),
            #[cfg(feature = "std-easy")]
            Some("iol") => dump_cmd(&IoLite, &args),
            #[cfg(feature = "std-easy")]
            Some("io") => dump_cmd(&IoScn, &args),
            s => {
                eprintln!("unknown scenario {:?}", s);
                2
            }
        },
        Some("replay") => match args.get(2) {
            Some(p) => replay_cmd(p),
            None => 2,
        },
        Some("hookcheck") => {
            let seed: u64 = arg(&args, "--seed").and_then(|s| s.parse().ok()).unwrap_or(1);
            let cases: u64 = arg(&args, "--cases").and_then(|s| s.parse().ok()).unwrap_or(400);
            let (ok, rep) = hookcheck::run(seed, cases);
            println!("{}", rep.to_string());
            if ok {
                0
            } else {
                1
            }
        }
        Some("features") => {
            println!("{}", features().join(","));
            0
        }
        _ => {
            eprintln!("usage: ffsim run --scenario S --seed N --start A --count N --workers W | replay FILE | features");
            2
        }
    };
    std::process::exit(code);
}
