//! "Lite" variants of the scenarios: the normal generators' operation lists,
//! cut down so that one run costs a few KiB of hashing.  Used for the Miri
//! batch (C14.ub_free), where one run costs seconds instead of microseconds.
//! The executors, oracles and replay format are the ordinary ones.

use crate::{gen, obj, tgt};

const FEED_CAP: usize = 160;
const TOTAL_CAP: usize = 900;

pub fn c03(seed: u64, twin: bool) -> Vec<gen::Op> {
    let ops = if twin { gen::generate_c12(seed) } else { gen::generate_c03(seed) };
    let mut out = Vec::new();
    let mut total = 0usize;
    for op in ops {
        if out.len() >= 14 {
            break;
        }
        match op {
            gen::Op::Feed { slot, form, mut bytes } => {
                // keep the *end* of long chunks (trigger words sit at chunk ends)
                if bytes.len() > FEED_CAP {
                    let cut = bytes.len() - FEED_CAP;
                    bytes.drain(..cut);
                }
                if total + bytes.len() > TOTAL_CAP {
                    continue;
                }
                total += bytes.len();
                out.push(gen::Op::Feed { slot, form, bytes });
            }
            gen::Op::Shot { slot, kind } => {
                // one-shot front ends re-hash the whole payload: keep at most one;
                // no buffer scribbling and few reads (each costs seconds under Miri)
                if !out.iter().any(|o| matches!(o, gen::Op::Shot { .. })) {
                    let kind = match kind {
                        gen::Shot::Buf => gen::Shot::Buf,
                        gen::Shot::Stream { mut reads, .. } => {
                            reads.truncate(3);
                            gen::Shot::Stream { reads, scribble: false, tail: 0 }
                        }
                        gen::Shot::File { mut reads, .. } => {
                            reads.truncate(3);
                            gen::Shot::File { reads, scribble: false, tail: 0 }
                        }
                    };
                    out.push(gen::Op::Shot { slot, kind });
                }
            }
            other => out.push(other),
        }
    }
    // always end with a finalisation of every slot that was fed
    for s in 0..gen::NSLOTS as u8 {
        if out.iter().any(|o| matches!(o, gen::Op::Feed { slot, .. } | gen::Op::Skip { slot, .. } if *slot == s)) {
            out.push(gen::Op::Fin { slot: s });
        }
    }
    out
}

pub fn c11(seed: u64, conv: bool) -> Vec<obj::Op> {
    let ops = if conv { obj::generate_c15(seed) } else { obj::generate_c11(seed) };
    ops.into_iter()
        .take(14)
        .map(|op| match op {
            obj::Op::Gen { dst, mut bytes, variant } => {
                bytes.truncate(400);
                obj::Op::Gen { dst, bytes, variant }
            }
            o => o,
        })
        .collect()
}

pub fn c17(seed: u64) -> Vec<tgt::Op> {
    let ops = tgt::generate(seed);
    let mut out = Vec::new();
    for op in ops {
        if out.len() >= 8 {
            break;
        }
        match op {
            tgt::Op::Pool(mut p) => {
                p.truncate(4);
                out.push(tgt::Op::Pool(p));
            }
            o => out.push(o),
        }
    }
    out
}

#[cfg(feature = "std-easy")]
pub fn io(seed: u64) -> Vec<crate::io::Op> {
    use crate::io::Op;
    let ops = crate::io::generate(seed);
    let mut out = Vec::new();
    let mut execs = 0;
    let n = ops.len();
    for (i, op) in ops.into_iter().enumerate() {
        match op {
            Op::Data(mut b) => {
                b.truncate(300);
                out.push(Op::Data(b));
            }
            // no real file system under Miri's isolation
            Op::Real { .. } => {}
            o => {
                // a spread of the enumerated executions; no buffer scribbling and
                // at most 6 reads each (every read costs seconds under Miri)
                if execs < 10 && (i < 3 || i % (n / 8 + 1) == 0) {
                    execs += 1;
                    let cut = |sc: Vec<crate::reader::REv>| -> Vec<crate::reader::REv> {
                        if sc.len() > 6 {
                            // keep the first 3 and the last 3 events (the fault sits at the end)
                            let mut v = sc[..3].to_vec();
                            v.extend_from_slice(&sc[sc.len() - 3..]);
                            v
                        } else {
                            sc
                        }
                    };
                    out.push(match o {
                        Op::Stream { script, sticky, tail, .. } => Op::Stream { script: cut(script), scribble: false, sticky, tail: if tail > 0 { 63 } else { 0 } },
                        Op::File { mut spec } => {
                            spec.script = cut(spec.script);
                            spec.scribble = false;
                            if spec.tail > 0 {
                                spec.tail = 63;
                            }
                            Op::File { spec }
                        }
                        d => d,
                    });
                }
            }
        }
    }
    out
}
