//! Tapes: the byte source of a run, assembled swarm-style from segments.

use crate::rng::Rng;
use crate::words::{ROLL_MAX_WORDS, ROLL_ZERO_WORDS, WORDS};

pub struct Tape {
    pub bytes: Vec<u8>,
    /// Offsets of interest (ends of trigger words, zero-run borders): chunk
    /// boundaries are biased towards these.
    pub marks: Vec<usize>,
}

impl Tape {
    fn new() -> Tape {
        Tape { bytes: Vec::new(), marks: Vec::new() }
    }
    fn mark(&mut self) {
        self.marks.push(self.bytes.len());
    }
    pub fn push_word(&mut self, level: usize, rng: &mut Rng) {
        let ws = WORDS[level.min(30)];
        let w = ws[rng.usize_below(ws.len())];
        self.bytes.extend_from_slice(&w);
        self.mark();
    }
    /// A non-zero window with rolling value 0 (kind 0) or u32::MAX (kind 1).
    pub fn push_special(&mut self, kind: u8, rng: &mut Rng) {
        let ws = if kind == 0 { ROLL_ZERO_WORDS } else { ROLL_MAX_WORDS };
        let w = ws[rng.usize_below(ws.len())];
        self.mark();
        self.bytes.extend_from_slice(&w);
        self.mark();
    }
    pub fn push_random(&mut self, n: usize, rng: &mut Rng) {
        let b = rng.bytes(n);
        self.bytes.extend_from_slice(&b);
    }
    pub fn push_low_entropy(&mut self, n: usize, rng: &mut Rng) {
        let k = rng.range(2, 4) as usize;
        let alpha: Vec<u8> = (0..k).map(|_| rng.below(256) as u8).collect();
        for _ in 0..n {
            let c = alpha[rng.usize_below(k)];
            self.bytes.push(c);
        }
    }
    pub fn push_periodic(&mut self, n: usize, rng: &mut Rng) {
        let p = rng.range(1, 40) as usize;
        let unit = rng.bytes(p);
        for i in 0..n {
            self.bytes.push(unit[i % p]);
        }
    }
    pub fn push_zeros(&mut self, n: usize) {
        self.mark();
        self.bytes.extend(std::iter::repeat(0u8).take(n));
        self.mark();
    }
}

/// Payload classes (swarm dimension).
#[derive(Clone, Copy, Debug, PartialEq)]
pub enum Class {
    /// 0..64 bytes of anything.
    Tiny,
    /// Uniformly random, a few hundred bytes to a few KiB (elimination at
    /// low levels happens naturally from ~400 B up).
    Random,
    /// Mixture of all segment kinds.
    Mixed,
    /// `count` words of level `k` (fills contexts 0..=k), then a tail.
    Words,
    /// Ends in exactly 7 (or 6, 8) zero bytes.
    ZeroTail,
    /// Length on a block-size border 192*2^k + {-1,0,1}.
    Border,
    /// Around multiples of the 32 KiB stream buffer.
    Buffer,
}

pub fn gen_payload(rng: &mut Rng, class: Class) -> Tape {
    let mut t = Tape::new();
    match class {
        Class::Tiny => {
            let n = rng.below(65) as usize;
            match rng.below(3) {
                0 => t.push_random(n, rng),
                1 => t.push_low_entropy(n, rng),
                _ => {
                    if n >= 7 {
                        t.push_random(n - 7, rng);
                        let lvl = rng.below(31) as usize;
                        t.push_word(lvl, rng);
                    } else {
                        t.push_random(n, rng);
                    }
                }
            }
        }
        Class::Random => {
            let n = match rng.below(4) {
                0 => rng.range(65, 400),
                1 => rng.range(400, 2000),
                2 => rng.range(2000, 8192),
                _ => rng.range(8192, 20000),
            } as usize;
            t.push_random(n, rng);
        }
        Class::Mixed => {
            let segs = rng.range(2, 8);
            for _ in 0..segs {
                let n = rng.range(1, 900) as usize;
                match rng.below(9) {
                    7 => {
                        // rolling value 0 / MAX windows, sometimes followed by a long zero run
                        let k = rng.below(2) as u8;
                        t.push_special(k, rng);
                        if rng.chance(1, 2) {
                            t.push_zeros(*rng.pick(&[1usize, 7, 63, 64, 65, 100, 200]));
                        }
                    }
                    8 => {
                        t.push_zeros(*rng.pick(&[63usize, 64, 65, 128, 300]));
                    }
                    0 => t.push_random(n, rng),
                    1 => t.push_low_entropy(n, rng),
                    2 => t.push_periodic(n, rng),
                    3 => t.push_zeros(rng.range(1, 40) as usize),
                    4 => {
                        let lvl = rng.below(31) as usize;
                        t.push_word(lvl, rng)
                    }
                    5 => {
                        let lvl = rng.below(8) as usize;
                        let c = rng.range(1, 70);
                        for _ in 0..c {
                            t.push_word(lvl, rng);
                        }
                    }
                    _ => {
                        t.mark();
                        t.push_random(n, rng)
                    }
                }
            }
        }
        Class::Words => {
            // 1..3 groups of `count` words of one level, optional filler between.
            let groups = rng.range(1, 3);
            for _ in 0..groups {
                let lvl = match rng.below(4) {
                    0 => rng.below(4),
                    1 => rng.below(12),
                    2 => rng.range(24, 30),
                    _ => rng.below(31),
                } as usize;
                let count = *rng.pick(&[1u64, 2, 31, 32, 33, 63, 64, 65, 70, 130]);
                for _ in 0..count {
                    t.push_word(lvl, rng);
                    if rng.chance(1, 8) {
                        let n = rng.range(1, 20) as usize;
                        t.push_random(n, rng);
                    }
                }
            }
            if rng.chance(1, 6) {
                let k = rng.below(2) as u8;
                t.push_special(k, rng);
            }
            let tail = rng.below(30) as usize;
            t.push_random(tail, rng);
            if rng.chance(1, 8) {
                t.push_zeros(*rng.pick(&[7usize, 8, 64, 70]));
            }
        }
        Class::ZeroTail => {
            let n = rng.range(1, 3000) as usize;
            if rng.chance(1, 2) {
                t.push_random(n, rng);
            } else {
                let lvl = rng.below(6) as usize;
                for _ in 0..(n / 7).min(80) {
                    t.push_word(lvl, rng);
                }
            }
            match rng.below(5) {
                0 => {
                    // non-zero tail whose rolling value is nevertheless 0
                    t.push_special(0, rng);
                }
                1 => {
                    t.push_special(1, rng);
                }
                _ => {
                    let z = *rng.pick(&[6usize, 7, 7, 7, 8, 14]);
                    t.push_zeros(z);
                }
            }
        }
        Class::Border => {
            let k = rng.below(7);
            let base = 192u64 << k;
            let n = (base as i64 + rng.range(0, 4) as i64 - 2).max(0) as usize;
            match rng.below(3) {
                0 => t.push_random(n, rng),
                1 => {
                    // dense low-level words so that contexts fill up
                    let lvl = rng.below(3) as usize;
                    while t.bytes.len() + 7 <= n {
                        t.push_word(lvl, rng);
                    }
                    let rest = n - t.bytes.len();
                    t.push_random(rest, rng);
                }
                _ => t.push_low_entropy(n, rng),
            }
        }
        Class::Buffer => {
            let j = rng.range(1, 4);
            let d = *rng.pick(&[-7i64, -1, -1, 0, 0, 1, 1, 1, 7, 100]);
            let n = (32768 * j as i64 + d).max(1) as usize;
            match rng.below(3) {
                0 => t.push_random(n, rng),
                1 => t.push_periodic(n, rng),
                _ => {
                    t.push_random(n - n / 3, rng);
                    t.mark();
                    t.push_low_entropy(n / 3, rng);
                }
            }
            // marks at buffer multiples
            for m in 1..=j as usize {
                if 32768 * m <= t.bytes.len() {
                    t.marks.push(32768 * m);
                }
            }
        }
    }
    t.marks.sort_unstable();
    t.marks.dedup();
    t
}

/// Split `len` bytes starting at `pos` into a chunk length, biased towards
/// the interesting places.
pub fn chunk_len(rng: &mut Rng, pos: usize, total: usize, marks: &[usize]) -> usize {
    let left = total - pos;
    if left == 0 {
        return 0;
    }
    let n = match rng.below(10) {
        0 => 0,
        1 => 1,
        2 => rng.range(2, 7) as usize,
        3 => rng.range(8, 64) as usize,
        4 | 5 => {
            // up to the next mark +- 3
            match marks.iter().find(|&&m| m > pos) {
                Some(&m) => {
                    let d = rng.range(0, 6) as i64 - 3;
                    ((m - pos) as i64 + d).max(0) as usize
                }
                None => left,
            }
        }
        6 => rng.range(64, 1024) as usize,
        7 => rng.range(0, left as u64) as usize,
        8 => left / 2,
        _ => left,
    };
    n.min(left)
}
