//! Fidelity checks for the hooks the simulator relies on.
//!
//! H2 (`Generator::verif_feed_zero_bytes`) must be state-for-state identical
//! to really feeding zero bytes, from any state.  H1's fall-through (no
//! opener installed) must behave like `std::fs::File` on the real file system.

use crate::gen::{feed, FORMS};
use crate::json::J;
use crate::rng::Rng;
use crate::tape::{gen_payload, Class};
use ssdeep::Generator;

fn dirty_generator(rng: &mut Rng) -> Generator {
    let mut g = Generator::new();
    match rng.below(10) {
        8 => {
            // deep: a few KiB of real zeros and random data, then dense trigger
            // words (elimination at several levels, full contexts)
            g.update(&vec![0u8; 3000]);
            let t = gen_payload(rng, Class::Random);
            g.update(&t.bytes);
            let mut w = gen_payload(rng, Class::Words);
            w.bytes.truncate(2000);
            g.update(&w.bytes);
        }
        9 => {
            // a state reached through the hook itself: 96 GiB-ish, then crafted
            // words at high levels (the states the runs actually use it from)
            g.verif_feed_zero_bytes((1u64 << 36) + rng.below(1 << 20));
            let mut t = gen_payload(rng, Class::Tiny);
            t.bytes.clear();
            for _ in 0..rng.range(1, 70) {
                t.push_word(rng.range(20, 30) as usize, rng);
            }
            g.update(&t.bytes);
        }
        0 => {}
        1 => {
            let t = gen_payload(rng, Class::Tiny);
            g.update(&t.bytes);
        }
        2 => {
            let t = gen_payload(rng, Class::Random);
            g.update(&t.bytes);
        }
        3 => {
            let t = gen_payload(rng, Class::Words);
            g.update(&t.bytes);
        }
        4 => {
            // after a reset
            let t = gen_payload(rng, Class::Random);
            g.update(&t.bytes);
            g.reset();
            let t = gen_payload(rng, Class::Tiny);
            g.update(&t.bytes);
        }
        5 => {
            // all contexts + last hash active, then some data
            let mut t = gen_payload(rng, Class::Tiny);
            t.bytes.clear();
            t.push_word(30, rng);
            g.update(&t.bytes);
            let n = rng.below(50) as usize;
            let b = rng.bytes(n);
            g.update(&b);
        }
        6 => {
            // with a declared size
            let _ = g.set_fixed_input_size(rng.below(100_000));
            let t = gen_payload(rng, Class::Mixed);
            g.update(&t.bytes);
        }
        _ => {
            // already inside a zero run
            let t = gen_payload(rng, Class::ZeroTail);
            let f = FORMS[rng.usize_below(FORMS.len())];
            feed(&mut g, f, &t.bytes);
        }
    }
    g
}

pub fn check_h2(seed: u64, cases: u64) -> (u64, Vec<String>) {
    let mut rng = Rng::new(seed ^ 0x4832);
    let mut bad = Vec::new();
    let mut done = 0;
    for i in 0..cases {
        let g0 = dirty_generator(&mut rng);
        let n: u64 = match rng.below(6) {
            0 | 1 => rng.below(41),
            2 => rng.range(41, 1000),
            3 => 64 * rng.range(1, 40) + rng.below(8),
            4 => rng.range(1000, 1 << 17),
            _ => {
                if i % 16 == 0 {
                    rng.range(1 << 17, 1 << 20)
                } else {
                    rng.range(1, 5000)
                }
            }
        };
        let mut a = g0.clone();
        a.verif_feed_zero_bytes(n);
        let mut b = g0.clone();
        // really feed, in a random form.  The hook is *defined* as n calls of
        // update_by_byte(0); the slice form accounts the size up front, which
        // may legitimately eliminate a context earlier (same results, different
        // internal state), so internal state is compared for the per-byte forms
        // only and results for all forms.
        let form = rng.below(3);
        match form {
            0 => {
                b.update(&vec![0u8; n as usize]);
            }
            1 => {
                for _ in 0..n {
                    b.update_by_byte(0);
                }
            }
            _ => {
                b.update_by_iter(std::iter::repeat(0u8).take(n as usize));
            }
        }
        done += 1;
        let (da, db) = (format!("{:?}", a), format!("{:?}", b));
        if format!("{:?}", a.finalize()) != format!("{:?}", b.finalize()) && bad.len() < 5 {
            bad.push(format!("case {}: n={} results differ right after fast-forward", i, n));
        }
        if (form != 0 && da != db) || a.input_size() != b.input_size() {
            if bad.len() < 5 {
                bad.push(format!("case {}: n={} states differ after fast-forward vs real feeding", i, n));
            }
        }
        // and they keep agreeing afterwards
        let tn = rng.below(40) as usize + 1;
        let tail = rng.bytes(tn);
        a.update(&tail);
        b.update(&tail);
        if format!("{:?}", a.finalize()) != format!("{:?}", b.finalize()) && bad.len() < 5 {
            bad.push(format!("case {}: n={} results differ after fast-forward + tail", i, n));
        }
    }
    // the repository's own multi-GiB vectors (generate/tests.rs large_data_triggers_1)
    let mut g = Generator::new();
    g.verif_feed_zero_bytes((96u64 << 30) - 7 * 64);
    for _ in 0..64 {
        g.update(b"`]]]_CT");
    }
    let i64s = "i".repeat(64);
    let r1 = g.finalize().map(|h| h.to_string_via_display());
    if r1 != Ok(format!("1610612736:{}:{}C", i64s, "i".repeat(31))) {
        bad.push(format!("96 GiB vector gives {:?}", r1));
    }
    g.update(&[1u8]);
    let r2 = g.finalize().map(|h| h.to_string_via_display());
    if r2 != Ok(format!("3221225472:{}H:k", "i".repeat(63))) {
        bad.push(format!("96 GiB + 1 vector gives {:?}", r2));
    }
    (done, bad)
}

trait Disp {
    fn to_string_via_display(&self) -> String;
}
impl Disp for ssdeep::RawFuzzyHash {
    fn to_string_via_display(&self) -> String {
        format!("{}", self)
    }
}

#[cfg(feature = "std-easy")]
pub fn check_h1_real_fs() -> Vec<String> {
    use ssdeep::GeneratorOrIOError;
    use std::io::ErrorKind;
    let mut bad = Vec::new();
    ssdeep::verif_hooks::set_opener(None);
    let dir = std::env::temp_dir().join(format!("ffsim-h1-{}", std::process::id()));
    let _ = std::fs::create_dir_all(&dir);
    let payload: Vec<u8> = (0..70_000u32).map(|i| (i.wrapping_mul(2654435761) >> 13) as u8).collect();
    let file = dir.join("regular.bin");
    if std::fs::write(&file, &payload).is_ok() {
        let mut g = Generator::new();
        g.update(&payload);
        let want = g.finalize().unwrap();
        match ssdeep::hash_file(&file) {
            Ok(h) if h.full_eq(&want) => {}
            other => bad.push(format!("regular temp file: {:?}", other.map(|h| format!("{}", h)))),
        }
    } else {
        bad.push("could not create a temp file (smoke case skipped)".to_string());
    }
    match ssdeep::hash_file(dir.join("does-not-exist")) {
        Err(GeneratorOrIOError::IOError(e)) if e.kind() == ErrorKind::NotFound => {}
        other => bad.push(format!("missing file: {:?}", other.map(|h| format!("{}", h)))),
    }
    match ssdeep::hash_file(&dir) {
        Err(GeneratorOrIOError::IOError(_)) | Err(GeneratorOrIOError::GeneratorError(_)) => {}
        other => bad.push(format!("directory: {:?}", other.map(|h| format!("{}", h)))),
    }
    if std::path::Path::new("/proc/self/status").exists() {
        match ssdeep::hash_file("/proc/self/status") {
            Err(_) => {}
            Ok(h) => bad.push(format!("/proc/self/status (metadata size 0, content non-empty) returned a hash {}", h)),
        }
    }
    if std::path::Path::new("/dev/null").exists() {
        match ssdeep::hash_file("/dev/null") {
            Ok(h) if format!("{}", h) == "3::" => {}
            other => bad.push(format!("/dev/null: {:?}", other.map(|h| format!("{}", h)))),
        }
    }
    let _ = std::fs::remove_dir_all(&dir);
    bad
}

#[cfg(not(feature = "std-easy"))]
pub fn check_h1_real_fs() -> Vec<String> {
    Vec::new()
}

pub fn run(seed: u64, cases: u64) -> (bool, J) {
    let (done, bad2) = check_h2(seed, cases);
    let bad1 = check_h1_real_fs();
    let ok = bad1.is_empty() && bad2.is_empty();
    (
        ok,
        J::obj(vec![
            ("h2_cases", J::u(done)),
            ("h2_failures", J::Arr(bad2.into_iter().map(J::Str).collect())),
            ("h1_real_fs_cases", J::u(if cfg!(feature = "std-easy") { 5 } else { 0 })),
            ("h1_failures", J::Arr(bad1.into_iter().map(J::Str).collect())),
            ("ok", J::Bool(ok)),
        ]),
    )
}
