//! Hand-written PRNG (splitmix64 seeding + xoshiro256**).
//!
//! Deliberately not the `rand` crate: every build configuration is a
//! separately compiled binary and C14 needs bit-identical choices in all of
//! them, now and after any toolchain update.

pub fn splitmix64(x: &mut u64) -> u64 {
    *x = x.wrapping_add(0x9E37_79B9_7F4A_7C15);
    let mut z = *x;
    z = (z ^ (z >> 30)).wrapping_mul(0xBF58_476D_1CE4_E5B9);
    z = (z ^ (z >> 27)).wrapping_mul(0x94D0_49BB_1331_11EB);
    z ^ (z >> 31)
}

/// Seed of run `i` of scenario `tag` under master seed `master`.
pub fn run_seed(master: u64, tag: &str, i: u64) -> u64 {
    let mut x = master ^ 0xA076_1D64_78BD_642F;
    let mut acc = splitmix64(&mut x);
    for b in tag.bytes() {
        x ^= b as u64;
        acc ^= splitmix64(&mut x);
    }
    x ^= i.wrapping_mul(0xE703_7ED1_A0B4_28DB);
    acc ^ splitmix64(&mut x)
}

#[derive(Clone)]
pub struct Rng {
    s: [u64; 4],
}

impl Rng {
    pub fn new(seed: u64) -> Self {
        let mut x = seed;
        let s = [
            splitmix64(&mut x),
            splitmix64(&mut x),
            splitmix64(&mut x),
            splitmix64(&mut x),
        ];
        Rng { s }
    }
    pub fn next_u64(&mut self) -> u64 {
        let r = self.s[1].wrapping_mul(5).rotate_left(7).wrapping_mul(9);
        let t = self.s[1] << 17;
        self.s[2] ^= self.s[0];
        self.s[3] ^= self.s[1];
        self.s[1] ^= self.s[2];
        self.s[0] ^= self.s[3];
        self.s[2] ^= t;
        self.s[3] = self.s[3].rotate_left(45);
        r
    }
    /// Uniform in 0..n (n > 0); multiply-shift, bias < 2^-32 for n < 2^32.
    pub fn below(&mut self, n: u64) -> u64 {
        debug_assert!(n > 0);
        if n <= 1 {
            return 0;
        }
        ((self.next_u64() as u128 * n as u128) >> 64) as u64
    }
    pub fn usize_below(&mut self, n: usize) -> usize {
        self.below(n as u64) as usize
    }
    /// Uniform in lo..=hi.
    pub fn range(&mut self, lo: u64, hi: u64) -> u64 {
        lo + self.below(hi - lo + 1)
    }
    pub fn chance(&mut self, num: u64, den: u64) -> bool {
        self.below(den) < num
    }
    pub fn pick<'a, T>(&mut self, xs: &'a [T]) -> &'a T {
        &xs[self.usize_below(xs.len())]
    }
    /// Weighted choice; returns the index.
    pub fn weighted(&mut self, w: &[u32]) -> usize {
        let total: u64 = w.iter().map(|&x| x as u64).sum();
        let mut r = self.below(total.max(1));
        for (i, &x) in w.iter().enumerate() {
            if r < x as u64 {
                return i;
            }
            r -= x as u64;
        }
        w.len() - 1
    }
    pub fn bytes(&mut self, n: usize) -> Vec<u8> {
        let mut v = Vec::with_capacity(n + 8);
        while v.len() < n {
            v.extend_from_slice(&self.next_u64().to_le_bytes());
        }
        v.truncate(n);
        v
    }
}
