//! S-IO: stream and file hashing under injected I/O faults (C18).
//!
//! A run is one *workload* (payload + read-size schedule) followed by the
//! enumeration of its single-fault sites: every read index (and the EOF read
//! itself) x error kinds, early EOF at every site, sampled double / sticky
//! faults, and the file variants (open fails, metadata fails, metadata that
//! disagrees with the content) through hook H1.

#![cfg(feature = "std-easy")]

use crate::core::{abr, guarded, Ctx, Outcome};
use crate::json::{hex, unhex, J};
use crate::reader::{run_hash_file, ErrSpec, FileSpec, REv, ReadTrace, SimReader, KINDS, OS_CODES, SPECIAL_KINDS};
use crate::rng::Rng;
use crate::tape::{gen_payload, Class};
use ssdeep::{Generator, GeneratorOrIOError, RawFuzzyHash};

pub const MAX: u64 = Generator::MAX_INPUT_SIZE;

#[derive(Clone, Debug, PartialEq)]
pub enum Op {
    /// Sets the payload for the following executions.
    Data(Vec<u8>),
    Stream { script: Vec<REv>, scribble: bool, sticky: bool, tail: u32 },
    File { spec: FileSpec },
    /// `hash_file` on an object of the *real* file system built from the
    /// current payload (not simulated: see `real_step`).
    Real { kind: RealKind },
}

/// Objects of the real file system whose metadata size disagrees with what
/// they deliver, or which cannot be opened / read.
#[derive(Clone, Debug, PartialEq)]
pub enum RealKind {
    /// A path that does not exist.
    Missing,
    /// A directory.
    Dir,
    /// A procfs entry (metadata size 0, non-empty content).
    Proc(u8),
    /// A named pipe fed by a writer thread in `chunk`-byte writes (metadata size 0).
    Fifo { chunk: u32 },
    /// An ordinary file holding the payload (consistent: logged, not judged).
    Regular,
}

const PROC_PATHS: [&str; 4] = ["/proc/self/status", "/proc/self/maps", "/proc/cpuinfo", "/proc/meminfo"];

impl RealKind {
    fn name(&self) -> &'static str {
        match self {
            RealKind::Missing => "missing",
            RealKind::Dir => "dir",
            RealKind::Proc(_) => "procfs",
            RealKind::Fifo { .. } => "fifo",
            RealKind::Regular => "regular",
        }
    }
}

impl Op {
    pub fn to_json(&self) -> J {
        match self {
            Op::Data(b) => J::obj(vec![("op", J::s("data")), ("hex", J::Str(hex(b)))]),
            Op::Stream { script, scribble, sticky, tail } => J::obj(vec![
                ("op", J::s("hash_stream")),
                ("script", J::Arr(script.iter().map(|e| e.to_json()).collect())),
                ("scribble", J::Bool(*scribble)),
                ("sticky", J::Bool(*sticky)),
                ("tail", J::u(*tail as u64)),
            ]),
            Op::File { spec } => J::obj(vec![("op", J::s("hash_file")), ("file", spec.to_json())]),
            Op::Real { kind } => {
                let mut v = vec![("op", J::s("hash_real_file")), ("kind", J::s(kind.name()))];
                match kind {
                    RealKind::Proc(i) => v.push(("which", J::u(*i as u64))),
                    RealKind::Fifo { chunk } => v.push(("chunk", J::u(*chunk as u64))),
                    _ => {}
                }
                J::obj(v)
            }
        }
    }
    pub fn from_json(j: &J) -> Result<Op, String> {
        Ok(match j.gs("op")? {
            "data" => Op::Data(unhex(j.gs("hex")?)?),
            "hash_stream" => {
                let mut script = Vec::new();
                for e in j.ga("script")? {
                    script.push(REv::from_json(e)?);
                }
                Op::Stream {
                    script,
                    scribble: j.gb("scribble")?,
                    sticky: j.gb("sticky")?,
                    tail: j.get("tail").and_then(|x| x.u64_()).unwrap_or(0) as u32,
                }
            }
            "hash_file" => Op::File { spec: FileSpec::from_json(j.get("file").ok_or("file missing")?)? },
            "hash_real_file" => Op::Real {
                kind: match j.gs("kind")? {
                    "missing" => RealKind::Missing,
                    "dir" => RealKind::Dir,
                    "procfs" => RealKind::Proc(j.gu("which")? as u8),
                    "fifo" => RealKind::Fifo { chunk: (j.gu("chunk")? as u32).max(1) },
                    "regular" => RealKind::Regular,
                    k => return Err(format!("bad real file kind {}", k)),
                },
            },
            o => return Err(format!("bad io op {}", o)),
        })
    }
    pub fn simplify(&self) -> Vec<Op> {
        let mut v = Vec::new();
        let simp_script = |s: &Vec<REv>| -> Vec<Vec<REv>> {
            let mut out = Vec::new();
            if s.len() > 1 {
                // drop leading deliveries
                out.push(s[s.len() / 2..].to_vec());
                out.push(s[1..].to_vec());
                // merge the first two deliveries
                if let (REv::Deliver(a), REv::Deliver(b)) = (&s[0], &s[1]) {
                    let mut m = vec![REv::Deliver(a.saturating_add(*b))];
                    m.extend_from_slice(&s[2..]);
                    out.push(m);
                }
                out.push(s[..s.len() - 1].to_vec());
            }
            out
        };
        match self {
            Op::Data(b) => {
                let n = b.len();
                if n > 0 {
                    v.push(Op::Data(b[..n / 2].to_vec()));
                    v.push(Op::Data(b[..n - 1].to_vec()));
                    if b.iter().any(|&x| x != 0x41) {
                        v.push(Op::Data(vec![0x41; n]));
                    }
                }
            }
            Op::Stream { script, scribble, sticky, tail } => {
                for s in simp_script(script) {
                    v.push(Op::Stream { script: s, scribble: *scribble, sticky: *sticky, tail: *tail });
                }
                if *scribble {
                    v.push(Op::Stream { script: script.clone(), scribble: false, sticky: *sticky, tail: *tail });
                }
                if *tail > 0 {
                    v.push(Op::Stream { script: script.clone(), scribble: *scribble, sticky: *sticky, tail: 0 });
                }
            }
            Op::File { spec } => {
                for s in simp_script(&spec.script) {
                    let mut sp = spec.clone();
                    sp.script = s;
                    v.push(Op::File { spec: sp });
                }
                if spec.scribble {
                    let mut sp = spec.clone();
                    sp.scribble = false;
                    v.push(Op::File { spec: sp });
                }
            }
            Op::Real { .. } => {}
        }
        v
    }
}

fn show(r: &Result<RawFuzzyHash, GeneratorOrIOError>) -> String {
    match r {
        Ok(h) => format!("Ok({})", h),
        Err(GeneratorOrIOError::IOError(e)) => format!("Err(IOError(kind={:?},os={:?}))", e.kind(), e.raw_os_error()),
        Err(GeneratorOrIOError::GeneratorError(e)) => format!("Err(GeneratorError({:?}))", e),
    }
}

/// The reference hash of a byte string; None if the plain generator itself
/// panics on it (then nothing here is judged against it: that is C03's subject).
fn reference(data: &[u8]) -> Option<Result<RawFuzzyHash, ssdeep::GeneratorError>> {
    guarded(|| {
        let mut g = Generator::new();
        g.update(data);
        g.finalize()
    })
    .ok()
}

fn fault_probe(cx: &mut Ctx, tr: &ReadTrace) {
    if let Some(Err(spec)) = &tr.terminal {
        cx.probe("fault.fired.read_error");
        if tr.inflight_at_fault > 0 {
            cx.probe("fault.inflight");
        } else {
            cx.probe("fault.idle");
        }
        match spec {
            ErrSpec::Simple(n) | ErrSpec::Custom(n) => {
                if let Some((name, _)) = KINDS.iter().find(|(k, _)| k == n) {
                    // static name for the probe map
                    cx.probe(kind_probe(name));
                }
            }
            ErrSpec::Os(_) => cx.probe("fault.fired.os_error"),
        }
        if matches!(spec, ErrSpec::Custom(_)) {
            cx.probe("fault.fired.custom_payload");
        }
    }
    if let Some(Ok(())) = &tr.terminal {
        // EOF observed; early if data was left is recorded by the caller
    }
    if tr.max_buf >= 32768 && tr.chunks.iter().any(|&c| c == 32768) {
        cx.probe("io.full_buffer_read");
    }
    if tr.clipped > 0 {
        cx.probe("io.request_clipped");
    }
}

fn kind_probe(name: &str) -> &'static str {
    macro_rules! tbl { ($($n:literal),*) => { match name { $($n => concat!("fault.fired.kind.", $n),)* _ => "fault.fired.kind.?" } } }
    tbl!(
        "NotFound", "PermissionDenied", "ConnectionRefused", "ConnectionReset", "HostUnreachable",
        "NetworkUnreachable", "ConnectionAborted", "NotConnected", "AddrInUse", "AddrNotAvailable",
        "NetworkDown", "BrokenPipe", "AlreadyExists", "WouldBlock", "NotADirectory", "IsADirectory",
        "DirectoryNotEmpty", "ReadOnlyFilesystem", "StaleNetworkFileHandle", "InvalidInput",
        "InvalidData", "TimedOut", "WriteZero", "StorageFull", "NotSeekable", "QuotaExceeded",
        "FileTooLarge", "ResourceBusy", "ExecutableFileBusy", "Deadlock", "CrossesDevices",
        "TooManyLinks", "InvalidFilename", "ArgumentListTooLong", "Interrupted", "Unsupported",
        "UnexpectedEof", "OutOfMemory", "Other"
    )
}

pub fn execute(ops: &[Op], verbose: bool) -> Outcome {
    let mut cx = Ctx::new(verbose);
    let mut data: Vec<u8> = Vec::new();
    for (i, op) in ops.iter().enumerate() {
        cx.step = i;
        let r = guarded(|| step(&mut cx, &mut data, op));
        if let Err(msg) = r {
            let name = match op {
                Op::Data(_) => "data",
                Op::Stream { .. } => "hash_stream",
                Op::File { .. } => "hash_file",
                Op::Real { .. } => "hash_file(real)",
            };
            cx.fail("C18.no_panic", format!("panic:{}", name), format!("operation panicked: {}", msg));
            cx.ev_std(format_args!("panic in {}", name));
            // hash_file may have left the opener installed
            ssdeep::verif_hooks::set_opener(None);
        }
    }
    cx.step = ops.len();
    cx.finish()
}

fn step(cx: &mut Ctx, data: &mut Vec<u8>, op: &Op) {
    match op {
        Op::Data(b) => {
            *data = b.clone();
            cx.ev_std(format_args!("data {}", abr(b)));
        }
        Op::Stream { script, scribble, sticky, tail } => {
            let mut rd = SimReader::new(data, script, *scribble, *sticky).with_tail(*tail);
            if script.iter().any(|e| matches!(e, REv::Panic)) {
                // A reader that panics inside read(), contained by the caller.
                // The unwound call itself is not judged; the executions that
                // follow on this thread are, as usual.
                match guarded(|| ssdeep::hash_stream(&mut rd)) {
                    Err(msg) if msg.contains(crate::reader::READER_PANIC) => {
                        cx.probe("fault.fired.reader_panic");
                        cx.ev_std(format_args!("hash_stream delivered={} reader panicked -> unwound", rd.trace.delivered));
                    }
                    Err(msg) => {
                        cx.fail("C18.no_panic", "panic:hash_stream", format!("operation panicked: {}", msg));
                        cx.ev_std(format_args!("panic in hash_stream"));
                    }
                    Ok(got) => {
                        cx.probe("io.reader_panic_not_reached");
                        cx.ev_std(format_args!("hash_stream delivered={} (scripted reader panic not reached) -> {}", rd.trace.delivered, show(&got)));
                    }
                }
                return;
            }
            let got = ssdeep::hash_stream(&mut rd);
            let tr = rd.trace.clone();
            let runaway = rd.runaway;
            cx.ev_std(format_args!(
                "hash_stream delivered={} term={} -> {}",
                tr.delivered,
                term_name(&tr),
                show(&got)
            ));
            cx.probe("io.stream_exec");
            cx.probe_n("sim.bytes_delivered_by_readers", tr.delivered as u64);
            if matches!(tr.terminal, Some(Err(_))) && tr.inflight_at_fault > (1 << 20) {
                cx.probe("fault.after_1MiB");
            }
            if tr.reentered > 0 {
                cx.probe("fault.fired.reentrant_reader");
            }
            if *tail > 0 && tr.delivered > 32768 {
                cx.probe("io.tiny_reads_beyond_buffer");
            }
            fault_probe(cx, &tr);
            judge_reads(cx, "hash_stream", data, script, &tr, runaway, &got, None);
        }
        Op::Real { kind } => real_step(cx, data, kind),
        Op::File { spec } => {
            let fr = run_hash_file(data, spec);
            cx.ev_std(format_args!(
                "hash_file open={} meta={} delivered={} term={} -> {}",
                match &spec.open {
                    Ok(()) => "ok".to_string(),
                    Err(e) => e.name(),
                },
                match &spec.meta {
                    Ok(n) => n.to_string(),
                    Err(e) => e.name(),
                },
                fr.trace.delivered,
                term_name(&fr.trace),
                show(&fr.result)
            ));
            cx.probe("io.file_exec");
            if spec.script.iter().any(|e| matches!(e, REv::Panic)) {
                match &fr.panic {
                    Some(msg) if msg.contains(crate::reader::READER_PANIC) => cx.probe("fault.fired.reader_panic"),
                    Some(msg) => cx.fail("C18.no_panic", "panic:hash_file", format!("hash_file panicked: {}", msg)),
                    None => cx.probe("io.reader_panic_not_reached"),
                }
                return;
            }
            cx.probe_n("sim.bytes_delivered_by_readers", fr.trace.delivered as u64);
            if fr.panic.is_some() && (spec.open.is_err() || spec.meta.is_err() || matches!(spec.meta, Ok(x) if x > MAX)) {
                cx.fail("C18.no_panic", "panic:hash_file", format!("hash_file panicked: {}", fr.panic.clone().unwrap_or_default()));
                return;
            }
            if let Err(e) = &spec.open {
                // "a file ... which cannot be opened: the result is an error, never a hash"
                cx.probe("fault.fired.open_error");
                match &fr.result {
                    Err(GeneratorOrIOError::IOError(x)) if e.matches(x) => cx.probe("io.open_error_identity_kept"),
                    Err(_) => cx.probe("io.open_error_other_error"),
                    Ok(_) => cx.fail(
                        "C18.file_open_err",
                        e.name(),
                        format!("open failed with {} but hash_file returned {}", e.name(), show(&fr.result)),
                    ),
                }
                return;
            }
            if let Err(e) = &spec.meta {
                // the statement does not mention metadata failures; the only
                // reading that cannot be wrong: no hash comes back
                cx.probe("fault.fired.metadata_error");
                match &fr.result {
                    Err(GeneratorOrIOError::IOError(x)) if e.matches(x) => cx.probe("io.metadata_error_identity_kept"),
                    Err(_) => cx.probe("io.metadata_error_other_error"),
                    Ok(_) => cx.fail(
                        "C18.file_meta_err",
                        e.name(),
                        format!("metadata failed with {} but hash_file returned {}", e.name(), show(&fr.result)),
                    ),
                }
                return;
            }
            let m = *spec.meta.as_ref().unwrap();
            fault_probe(cx, &fr.trace);
            if m > MAX {
                cx.probe("fault.fired.metadata_too_large");
                if fr.result.is_ok() {
                    cx.fail(
                        "C18.file_mismatch_err",
                        "metadata>max",
                        format!("metadata size {} exceeds the limit but hash_file returned {}", m, show(&fr.result)),
                    );
                }
                return;
            }
            // A file that is consistent from the implementation's point of view
            // (no read error, and exactly as many bytes as the metadata said before
            // the end of the stream) is the fault-free case: whether the size
            // declaration changes its hash is C12's statement (C12.easy_declares)
            // and whether short reads matter is judged on hash_stream.  It is
            // executed and logged, not judged here -- not even when it panics.
            let consistent = !matches!(fr.trace.terminal, Some(Err(_)))
                && fr.trace.delivered as u64 == m
                && (fr.trace.terminal.is_some() || fr.trace.delivered == data.len());
            if consistent && !fr.runaway {
                cx.probe("io.consistent_file_not_judged");
                if fr.panic.is_some() {
                    cx.probe("io.consistent_file_panicked");
                }
                return;
            }
            if let Some(msg) = &fr.panic {
                cx.fail("C18.no_panic", "panic:hash_file", format!("hash_file panicked: {}", msg));
                return;
            }
            judge_reads(cx, "hash_file", data, &spec.script, &fr.trace, fr.runaway, &fr.result, Some(m));
        }
    }
}

/// `hash_file` on the **real** file system (hook H1 falls through when no
/// opener is installed).  This is not simulation: the kernel decides the read
/// sizes of the pipe and the content of procfs.  It is here because a seam can
/// be bypassed -- code that consults the file system by another route (the
/// path, the file type) never meets the simulated file -- and because the
/// statement names these objects: "files whose metadata size disagrees with
/// their content (e.g. procfs entries), missing files, directories".  Only the
/// outcome class is judged (an error, never a hash), which does not depend on
/// the uncontrolled schedule; all lines are local.
fn real_step(cx: &mut Ctx, data: &[u8], kind: &RealKind) {
    use std::sync::atomic::{AtomicU64, Ordering};
    static COUNTER: AtomicU64 = AtomicU64::new(0);
    if cfg!(miri) {
        return;
    }
    let dir = match std::env::current_exe().ok().and_then(|p| p.parent().map(|d| d.join("rfs-tmp"))) {
        Some(d) => d,
        None => {
            cx.probe("rfs.no_scratch_dir");
            return;
        }
    };
    if std::fs::create_dir_all(&dir).is_err() {
        cx.probe("rfs.no_scratch_dir");
        return;
    }
    // unique per process (pid + start time) and per operation
    static NONCE: std::sync::OnceLock<u128> = std::sync::OnceLock::new();
    let nonce = *NONCE.get_or_init(|| std::time::SystemTime::now().duration_since(std::time::UNIX_EPOCH).map(|d| d.as_nanos()).unwrap_or(0));
    let path = dir.join(format!("{}-{:x}-{}", std::process::id(), nonce, COUNTER.fetch_add(1, Ordering::Relaxed)));
    if std::fs::symlink_metadata(&path).is_ok() {
        // a leftover of a killed process under the same name: never use it
        cx.probe("rfs.setup_failed");
        return;
    }
    let run = |p: &std::path::Path| guarded(|| ssdeep::hash_file(p));
    let judge = |cx: &mut Ctx, check: &'static str, what: &str, got: Result<Result<RawFuzzyHash, GeneratorOrIOError>, String>| {
        cx.probe("io.real_file_exec");
        match got {
            Err(msg) => {
                cx.ev(false, format_args!("hash_file(real {}) panicked", what));
                cx.fail("C18.no_panic", format!("panic:hash_file:real:{}", what), format!("hash_file panicked on a real {}: {}", what, msg));
            }
            Ok(Ok(h)) => {
                cx.ev(false, format_args!("hash_file(real {}) -> Ok({})", what, h));
                cx.fail(check, format!("realfs:{}", what), format!("hash_file on a real {} returned the hash {} instead of an error", what, h));
            }
            Ok(Err(e)) => {
                cx.ev(false, format_args!("hash_file(real {}) -> {}", what, show(&Err(e))));
            }
        }
    };
    match kind {
        RealKind::Missing => {
            cx.probe("fault.fired.real_missing_file");
            let got = run(&path);
            judge(cx, "C18.file_open_err", "missing file", got);
        }
        RealKind::Dir => {
            if std::fs::create_dir(&path).is_err() {
                cx.probe("rfs.setup_failed");
                return;
            }
            cx.probe("fault.fired.real_directory");
            let got = run(&path);
            let _ = std::fs::remove_dir(&path);
            judge(cx, "C18.no_hash_on_error", "directory", got);
        }
        RealKind::Proc(i) => {
            let p = std::path::Path::new(PROC_PATHS[*i as usize % PROC_PATHS.len()]);
            let len = std::fs::metadata(p).map(|m| m.len()).ok();
            let content = std::fs::read(p).map(|v| v.len()).unwrap_or(0);
            if len != Some(0) || content == 0 {
                cx.probe("rfs.procfs_unavailable");
                return;
            }
            cx.probe("fault.fired.real_procfs_entry");
            let got = run(p);
            judge(cx, "C18.file_mismatch_err", "procfs entry", got);
        }
        RealKind::Fifo { chunk } => {
            use std::io::Write;
            use std::os::unix::fs::OpenOptionsExt;
            // at most half the pipe capacity: the writer can never block in write
            let payload: Vec<u8> = data[..data.len().min(32768)].to_vec();
            if payload.is_empty() {
                cx.probe("rfs.fifo_empty_payload");
                return;
            }
            let made = std::process::Command::new("mkfifo")
                .arg(&path)
                .stderr(std::process::Stdio::null())
                .status()
                .map(|s| s.success())
                .unwrap_or(false);
            if !made {
                cx.probe("rfs.mkfifo_unavailable");
                return;
            }
            let chunk = (*chunk).max(1) as usize;
            let wpath = path.clone();
            // the writer reports whether it could open the pipe at all
            let writer = std::thread::Builder::new().spawn(move || {
                // blocks until a reader opens the pipe
                match std::fs::OpenOptions::new().write(true).open(&wpath) {
                    Ok(mut f) => {
                        for c in payload.chunks(chunk) {
                            if f.write_all(c).is_err() {
                                break; // the reader went away: its business
                            }
                        }
                        true
                    }
                    Err(_) => false,
                }
            });
            let writer = match writer {
                Ok(w) => w,
                Err(_) => {
                    let _ = std::fs::remove_file(&path);
                    cx.probe("rfs.setup_failed");
                    return;
                }
            };
            // Watchdog against a harness-side failure (the writer could not open
            // the pipe, so hash_file's own open would block for ever): after 20 s
            // it opens the pipe read-write without blocking, which releases every
            // blocked open, and the execution is then not judged.
            let done = std::sync::Arc::new(std::sync::atomic::AtomicBool::new(false));
            let fired = std::sync::Arc::new(std::sync::atomic::AtomicBool::new(false));
            let (d2, f2, p2) = (done.clone(), fired.clone(), path.clone());
            let watchdog = std::thread::Builder::new().spawn(move || {
                for _ in 0..400 {
                    if d2.load(Ordering::Relaxed) {
                        return;
                    }
                    std::thread::sleep(std::time::Duration::from_millis(50));
                }
                f2.store(true, Ordering::Relaxed);
                let _ = std::fs::OpenOptions::new().read(true).write(true).custom_flags(0o4000).open(&p2);
            });
            cx.probe("fault.fired.real_fifo");
            let got = run(&path);
            // release the writer if hash_file never opened the pipe (O_NONBLOCK: cannot block)
            let unblock = std::fs::OpenOptions::new().read(true).custom_flags(0o4000).open(&path);
            let writer_opened = writer.join().unwrap_or(false);
            done.store(true, Ordering::Relaxed);
            if let Ok(w) = watchdog {
                let _ = w.join();
            }
            drop(unblock);
            let _ = std::fs::remove_file(&path);
            if !writer_opened || fired.load(Ordering::Relaxed) {
                // the harness, not the library, failed to set the scene
                cx.probe("rfs.setup_failed");
                return;
            }
            judge(cx, "C18.file_mismatch_err", "fifo", got);
        }
        RealKind::Regular => {
            if std::fs::write(&path, data).is_err() {
                cx.probe("rfs.setup_failed");
                return;
            }
            let got = run(&path);
            let _ = std::fs::remove_file(&path);
            cx.probe("io.real_file_exec");
            match (&got, reference(data)) {
                (Ok(Ok(a)), Some(Ok(b))) if a.full_eq(&b) => cx.probe("rfs.regular_same"),
                _ => cx.probe("rfs.regular_differs_not_judged_here"),
            }
            cx.ev(false, format_args!("hash_file(real regular file, {} bytes) -> {}", data.len(), match &got {
                Ok(r) => show(r),
                Err(_) => "panic".to_string(),
            }));
        }
    }
}

fn term_name(tr: &ReadTrace) -> String {
    match &tr.terminal {
        None => "none".to_string(),
        Some(Ok(())) => "eof".to_string(),
        Some(Err(e)) => e.name(),
    }
}

fn judge_reads(
    cx: &mut Ctx,
    what: &'static str,
    data: &[u8],
    script: &[REv],
    tr: &ReadTrace,
    runaway: bool,
    got: &Result<RawFuzzyHash, GeneratorOrIOError>,
    meta: Option<u64>,
) {
    if runaway {
        cx.fail(
            "C18.no_progress",
            what,
            format!("{} kept calling read ({} calls) after the stream had ended/failed", what, tr.calls),
        );
        return;
    }
    match &tr.terminal {
        Some(Err(spec)) => match got {
            Err(GeneratorOrIOError::IOError(e)) if e.kind() == spec.kind() => {
                // "returned to the caller as that I/O error": the kind is what is
                // demanded; whether the raw OS code / custom payload survive
                // (an implementation may add context) is recorded only
                if spec.matches(e) {
                    cx.probe("io.error_identity_kept");
                } else {
                    cx.probe("io.error_kind_kept_code_lost");
                }
                if matches!(spec, ErrSpec::Custom(_)) && e.get_ref().is_some() {
                    cx.probe("io.custom_payload_preserved");
                }
            }
            // for files the statement only says "an error, never a hash"
            Err(_) if meta.is_some() => cx.probe("io.file_read_error_other_error"),
            Ok(_) => cx.fail(
                "C18.no_hash_on_error",
                format!("{}:{}", what, spec.name()),
                format!("read #{} failed with {} but {} returned {}", tr.terminal_at, spec.name(), what, show(got)),
            ),
            other => cx.fail(
                "C18.err_propagates",
                format!("{}:{}", what, spec.name()),
                format!("read #{} failed with {} but {} returned {}", tr.terminal_at, spec.name(), what, show(other)),
            ),
        },
        None => {
            // The implementation returned without ever seeing an error or the
            // end of the stream.
            cx.probe("io.returned_before_eof");
            let scripted_terminal = script.iter().any(|e| matches!(e, REv::Fail(_) | REv::Eof));
            if let Some(m) = meta {
                // A file read to its end would have delivered data.len() bytes
                // (when nothing in the script ends it earlier).
                if !scripted_terminal && m != data.len() as u64 {
                    cx.probe("fault.fired.metadata_mismatch");
                    if got.is_ok() {
                        cx.fail(
                            "C18.file_mismatch_err",
                            if m > data.len() as u64 { "metadata>content:stopped_early" } else { "metadata<content:stopped_early" },
                            format!(
                                "metadata says {} bytes, the file holds {}, hash_file stopped after {} bytes without reaching the end and returned {}",
                                m,
                                data.len(),
                                tr.delivered,
                                show(got)
                            ),
                        );
                    }
                    return;
                }
            }
            if tr.delivered < data.len() && !scripted_terminal {
                // The reader would have delivered the whole string; the caller
                // stopped asking.  Judged by the result only: a hash that is not
                // the hash of the string the reader delivers.  (On tiny inputs a
                // prefix can have the same hash: then the statement holds here.)
                let coincides = match (got, reference(data)) {
                    (Ok(a), Some(Ok(b))) => a.full_eq(&b),
                    _ => false,
                };
                if coincides {
                    cx.probe("io.stopped_early_same_hash");
                } else if got.is_ok() {
                    cx.fail(
                        "C18.short_reads_ok",
                        format!("{}:stopped_early", what),
                        format!(
                            "{} returned {} after only {} of {} bytes although the reader never signalled the end of the stream",
                            what,
                            show(got),
                            tr.delivered,
                            data.len()
                        ),
                    );
                }
                return;
            }
            // everything was consumed (or the script is ambiguous): judge the bytes handed over
            let Some(want) = reference(&data[..tr.delivered]) else {
                cx.probe("io.reference_panicked");
                return;
            };
            let same = match (got, &want) {
                (Ok(a), Ok(b)) => a.full_eq(b),
                _ => false,
            };
            if !same && !scripted_terminal {
                cx.fail(
                    "C18.short_reads_ok",
                    what,
                    format!("{} bytes delivered without error: {} returned {}", tr.delivered, what, show(got)),
                );
            }
        }
        Some(Ok(())) => {
            // no read error: EOF (possibly early) after `delivered` bytes
            let delivered = &data[..tr.delivered];
            if tr.delivered < data.len() {
                cx.probe("fault.fired.early_eof");
            }
            if tr.chunks.len() > 1 && tr.chunks.iter().any(|&c| c < tr.max_buf) {
                cx.probe("io.short_reads");
            }
            if let Some(m) = meta {
                if m != tr.delivered as u64 {
                    cx.probe("fault.fired.metadata_mismatch");
                    if got.is_ok() {
                        cx.fail(
                            "C18.file_mismatch_err",
                            if m > tr.delivered as u64 { "metadata>content" } else { "metadata<content" },
                            format!("metadata says {} bytes, {} were delivered, but hash_file returned {}", m, tr.delivered, show(got)),
                        );
                    } else {
                        match got {
                            Err(GeneratorOrIOError::GeneratorError(_)) => cx.probe("io.mismatch_as_generator_error"),
                            _ => cx.probe("io.mismatch_as_io_error"),
                        }
                    }
                    return;
                }
            }
            let Some(want) = reference(delivered) else {
                cx.probe("io.reference_panicked");
                return;
            };
            let same = match (got, &want) {
                (Ok(a), Ok(b)) => a.full_eq(b),
                _ => false,
            };
            if !same {
                cx.fail(
                    "C18.short_reads_ok",
                    what,
                    format!(
                        "{} bytes delivered in {} reads without error: {} returned {} but the hash of the delivered bytes is {}",
                        tr.delivered,
                        tr.chunks.len(),
                        what,
                        show(got),
                        match &want {
                            Ok(h) => format!("Ok({})", h),
                            Err(e) => format!("Err({:?})", e),
                        }
                    ),
                );
            }
        }
    }
}

// ---------------------------------------------------------------------------
// Generation

fn payload(rng: &mut Rng) -> Vec<u8> {
    match rng.weighted(&[2, 8, 24, 24, 18, 16, 8]) {
        0 => Vec::new(),
        1 => {
            let n = rng.range(1, 7) as usize;
            rng.bytes(n)
        }
        2 => gen_payload(rng, Class::Tiny).bytes,
        3 => {
            let n = rng.range(64, 4096) as usize;
            if rng.chance(1, 2) {
                rng.bytes(n)
            } else {
                gen_payload(rng, Class::Mixed).bytes
            }
        }
        4 => gen_payload(rng, Class::Random).bytes,
        5 => gen_payload(rng, Class::Buffer).bytes,
        _ => gen_payload(rng, Class::ZeroTail).bytes,
    }
}

/// A fault-free schedule of read sizes that covers `total` bytes.
fn schedule(rng: &mut Rng, total: usize) -> Vec<REv> {
    let mut v = Vec::new();
    let mut left = total;
    let style = if total <= 64 { rng.below(6) } else { 1 + rng.below(5) };
    while left > 0 {
        let n = match style {
            0 => 1,
            1 => 1 + rng.below(64) as usize,
            2 => 4096,
            3 => 32768,
            4 => *rng.pick(&[1usize, 100, 4096, 32767, 32768, 40000, 65536]),
            _ => 1 + rng.below(left as u64 + 10) as usize,
        };
        let eff = n.min(32768).min(left);
        v.push(REv::Deliver(n as u32));
        left -= eff;
        if v.len() > 400 {
            v.push(REv::Deliver(u32::MAX));
            left = left.saturating_sub(32768);
        }
    }
    v
}

fn all_specs() -> Vec<ErrSpec> {
    let mut v: Vec<ErrSpec> = KINDS.iter().map(|(n, _)| ErrSpec::Simple(n.to_string())).collect();
    for &c in OS_CODES {
        v.push(ErrSpec::Os(c));
    }
    v
}

/// A large stream (1..3.5 MiB): a reduced fault plan late in the stream, for
/// defects that only appear after a lot of data has been consumed.  One such
/// execution costs 10-30 ms, so these workloads are rare (1 in 250).
fn generate_large(rng: &mut Rng) -> Vec<Op> {
    let mut ops = Vec::new();
    let n = rng.range(1 << 20, (7 << 19) + 12345) as usize;
    // cheap, non-degenerate content: a random 64 KiB block repeated with a twist
    let block = rng.bytes(65536);
    let mut data = Vec::with_capacity(n);
    let mut k = 0u8;
    while data.len() < n {
        let take = (n - data.len()).min(block.len());
        data.extend(block[..take].iter().map(|&b| b ^ k));
        k = k.wrapping_add(29);
    }
    let read = *rng.pick(&[32768u32, 32768, 65536, 8192, 40000]);
    let eff = read.min(32768) as usize;
    let r = (n + eff - 1) / eff;
    let base: Vec<REv> = (0..r).map(|_| REv::Deliver(read)).collect();
    let scribble = false;
    ops.push(Op::Data(data));
    ops.push(Op::Stream { script: base.clone(), scribble, sticky: true, tail: 0 });
    let with_prefix = |i: usize, tail: Vec<REv>| -> Vec<REv> {
        let mut s = base[..i.min(base.len())].to_vec();
        s.extend(tail);
        s
    };
    // fault sites: early, around and beyond 1 MiB, near the end, the EOF read
    let mib = (1usize << 20) / eff;
    let mut sites = vec![1usize, mib.saturating_sub(1), mib + 1, mib + 2 + rng.usize_below((r - mib).max(1)), r - 1, r];
    sites.retain(|&i| i <= r);
    sites.dedup();
    for &i in &sites {
        for k in SPECIAL_KINDS {
            ops.push(Op::Stream { script: with_prefix(i, vec![REv::Fail(ErrSpec::Simple(k.to_string()))]), scribble, sticky: false, tail: 0 });
        }
        ops.push(Op::Stream { script: with_prefix(i, vec![REv::Fail(ErrSpec::Os(5))]), scribble, sticky: true, tail: 0 });
        if rng.chance(1, 2) {
            ops.push(Op::Stream { script: with_prefix(i, vec![REv::Eof]), scribble, sticky: true, tail: 0 });
        }
    }
    // the same through hash_file: a late one-shot fault, and metadata off by one
    let i = sites[sites.len() / 2];
    ops.push(Op::File {
        spec: FileSpec { open: Ok(()), meta: Ok(n as u64), script: with_prefix(i, vec![REv::Fail(ErrSpec::Simple("Interrupted".into()))]), scribble, sticky: false, tail: 0 },
    });
    for m in [n as u64 - 1, n as u64 + 1, (n as u64 / 32768) * 32768] {
        ops.push(Op::File { spec: FileSpec { open: Ok(()), meta: Ok(m), script: Vec::new(), scribble, sticky: true, tail: 0 } });
    }
    ops
}

pub fn generate(seed: u64) -> Vec<Op> {
    let mut rng = Rng::new(seed);
    if rng.chance(1, 250) {
        return generate_large(&mut rng);
    }
    let mut ops = Vec::new();
    let data = payload(&mut rng);
    let base = schedule(&mut rng, data.len());
    let r = base.len(); // reads that deliver data; read #r is the EOF read
    let scribble = rng.chance(1, 2);
    let specs = all_specs();
    ops.push(Op::Data(data.clone()));
    // fault-free baseline (stream and consistent file)
    ops.push(Op::Stream { script: base.clone(), scribble, sticky: true, tail: 0 });
    ops.push(Op::File {
        spec: FileSpec { open: Ok(()), meta: Ok(data.len() as u64), script: base.clone(), scribble, sticky: true, tail: 0 },
    });
    // whole-stream tiny reads (a byte-at-a-time style reader all the way, also
    // beyond the 32 KiB buffer) and a reader that re-enters the library
    if rng.chance(1, 2) {
        for &t in &[1u32, 7, 63] {
            if rng.chance(1, 2) || data.len() > 32768 {
                ops.push(Op::Stream { script: Vec::new(), scribble, sticky: true, tail: t });
                if rng.chance(1, 3) {
                    ops.push(Op::File {
                        spec: FileSpec { open: Ok(()), meta: Ok(data.len() as u64), script: Vec::new(), scribble, sticky: true, tail: t },
                    });
                }
                // and a fault after a prefix of tiny reads
                if !data.is_empty() {
                    let k = 1 + rng.usize_below(40);
                    let mut sc: Vec<REv> = (0..k).map(|_| REv::Deliver(t)).collect();
                    sc.push(REv::Fail(ErrSpec::Os(5)));
                    ops.push(Op::Stream { script: sc, scribble, sticky: rng.chance(1, 2), tail: t });
                }
            }
        }
    }
    if rng.chance(1, 3) && !base.is_empty() {
        let mut sc = base.clone();
        let i = rng.usize_below(sc.len());
        if let REv::Deliver(n) = sc[i] {
            sc[i] = REv::Reenter(n);
        }
        ops.push(Op::Stream { script: sc.clone(), scribble, sticky: true, tail: 0 });
        ops.push(Op::File {
            spec: FileSpec { open: Ok(()), meta: Ok(data.len() as u64), script: sc, scribble, sticky: true, tail: 0 },
        });
    }
    // a reader that panics inside read() (contained by the caller), followed by
    // ordinary executions: nothing may be carried over on this thread
    if rng.chance(1, 3) {
        let i = rng.usize_below(base.len() + 1);
        let mut sc = base[..i].to_vec();
        sc.push(REv::Panic);
        if rng.chance(1, 3) {
            ops.push(Op::File {
                spec: FileSpec { open: Ok(()), meta: Ok(data.len() as u64), script: sc, scribble, sticky: true, tail: 0 },
            });
        } else {
            ops.push(Op::Stream { script: sc, scribble, sticky: true, tail: 0 });
        }
        ops.push(Op::Stream { script: base.clone(), scribble, sticky: true, tail: 0 });
        ops.push(Op::File {
            spec: FileSpec { open: Ok(()), meta: Ok(data.len() as u64), script: base.clone(), scribble, sticky: true, tail: 0 },
        });
    }
    // the real file system (1 workload in 10): objects that cannot be simulated
    // away by a seam that the code under test might bypass
    if rng.chance(1, 10) {
        ops.push(Op::Real { kind: RealKind::Missing });
        ops.push(Op::Real { kind: RealKind::Dir });
        ops.push(Op::Real { kind: RealKind::Proc(rng.below(4) as u8) });
        ops.push(Op::Real { kind: RealKind::Fifo { chunk: *rng.pick(&[1u32, 7, 777, 4096, 32768, 65536]) } });
        ops.push(Op::Real { kind: RealKind::Regular });
    }
    // swarm: which fault families this run enumerates
    let fam_read_err = rng.chance(9, 10);
    let fam_eof = rng.chance(2, 3);
    let fam_double = rng.chance(1, 3);
    let fam_file = rng.chance(2, 3);
    let with_prefix = |i: usize, tail: Vec<REv>| -> Vec<REv> {
        let mut s = base[..i].to_vec();
        s.extend(tail);
        s
    };
    // sites: all when R is small, otherwise first / last / around buffer + a sample
    let sites: Vec<usize> = if r <= 80 {
        (0..=r).collect()
    } else {
        let mut s: Vec<usize> = vec![0, 1, r / 2, r - 1, r];
        for _ in 0..40 {
            s.push(rng.usize_below(r + 1));
        }
        s.sort_unstable();
        s.dedup();
        s
    };
    let exhaustive_at = [0usize, r / 2, r];
    let mut rr = rng.usize_below(specs.len());
    if fam_read_err {
        for &i in &sites {
            let as_file = rng.chance(1, 4);
            let mut push = |ops: &mut Vec<Op>, e: ErrSpec, sticky: bool| {
                let script = with_prefix(i, vec![REv::Fail(e)]);
                if as_file {
                    ops.push(Op::File {
                        spec: FileSpec { open: Ok(()), meta: Ok(data.len() as u64), script, scribble, sticky, tail: 0 },
                    });
                } else {
                    ops.push(Op::Stream { script, scribble, sticky, tail: 0 });
                }
            };
            if exhaustive_at.contains(&i) {
                for e in &specs {
                    push(&mut ops, e.clone(), true);
                }
                push(&mut ops, ErrSpec::Custom("Other".into()), true);
                push(&mut ops, ErrSpec::Custom("Interrupted".into()), false);
            } else {
                for k in SPECIAL_KINDS {
                    // non-sticky: a retrying implementation would read on and
                    // produce a hash instead of hanging
                    push(&mut ops, ErrSpec::Simple(k.to_string()), false);
                }
                push(&mut ops, specs[rr % specs.len()].clone(), rng.chance(1, 2));
                rr += 1;
                if rng.chance(1, 4) {
                    push(&mut ops, ErrSpec::Os(4), false);
                }
            }
        }
    }
    if fam_eof {
        for &i in &sites {
            if i < r {
                ops.push(Op::Stream { script: with_prefix(i, vec![REv::Eof]), scribble, sticky: rng.chance(1, 2), tail: 0 });
            }
        }
    }
    if fam_double && r >= 1 {
        for _ in 0..8 {
            let i = rng.usize_below(r + 1);
            let e1 = specs[rng.usize_below(specs.len())].clone();
            let e2 = specs[rng.usize_below(specs.len())].clone();
            // error, then the rest of the data, then another error
            let mut s = base[..i].to_vec();
            s.push(REv::Fail(e1));
            s.extend_from_slice(&base[i..]);
            s.push(REv::Fail(e2));
            ops.push(Op::Stream { script: s, scribble, sticky: false, tail: 0 });
            // early EOF followed by more data (non-sticky)
            let mut s2 = base[..i].to_vec();
            s2.push(REv::Eof);
            s2.extend_from_slice(&base[i..]);
            ops.push(Op::Stream { script: s2, scribble, sticky: false, tail: 0 });
        }
    }
    if fam_file {
        for e in &specs {
            ops.push(Op::File {
                spec: FileSpec { open: Err(e.clone()), meta: Ok(data.len() as u64), script: base.clone(), scribble, sticky: true, tail: 0 },
            });
            ops.push(Op::File {
                spec: FileSpec { open: Ok(()), meta: Err(e.clone()), script: base.clone(), scribble, sticky: true, tail: 0 },
            });
        }
        let n = data.len() as u64;
        let mut metas: Vec<u64> = vec![0, n * 2, MAX, MAX + 1, u64::MAX, n + 1, n.saturating_sub(1)];
        for d in 1..=8u64 {
            metas.push(n + d);
            metas.push(n.saturating_sub(d));
        }
        // sizes on the stream buffer border, whatever the content length is
        for j in 1..=3u64 {
            metas.push(32768 * j);
        }
        metas.push(32767);
        metas.push(32769);
        for m in metas {
            ops.push(Op::File {
                spec: FileSpec { open: Ok(()), meta: Ok(m), script: base.clone(), scribble, sticky: true, tail: 0 },
            });
            // the same disagreement when the file is read in full-buffer reads
            if !base.is_empty() {
                ops.push(Op::File {
                    spec: FileSpec { open: Ok(()), meta: Ok(m), script: Vec::new(), scribble, sticky: true, tail: 0 },
                });
            }
            // combined with a read fault at a few sites of the schedule
            if rng.chance(1, 3) {
                let i = rng.usize_below(r + 1);
                let e = specs[rng.usize_below(specs.len())].clone();
                ops.push(Op::File {
                    spec: FileSpec { open: Ok(()), meta: Ok(m), script: with_prefix(i, vec![REv::Fail(e)]), scribble, sticky: true, tail: 0 },
                });
            }
            // truncated content under an honest-looking size
            if r >= 1 && rng.chance(1, 3) {
                let i = rng.usize_below(r);
                ops.push(Op::File {
                    spec: FileSpec { open: Ok(()), meta: Ok(m), script: with_prefix(i, vec![REv::Eof]), scribble, sticky: true, tail: 0 },
                });
            }
        }
    }
    ops
}

/// Faults configured by an op list (for evidence).
pub fn faults(ops: &[Op]) -> Vec<(String, u64)> {
    let mut m: std::collections::BTreeMap<String, u64> = std::collections::BTreeMap::new();
    let mut count_script = |m: &mut std::collections::BTreeMap<String, u64>, s: &Vec<REv>| {
        for e in s {
            match e {
                REv::Fail(ErrSpec::Os(_)) => *m.entry("read_error.os".into()).or_insert(0) += 1,
                REv::Fail(ErrSpec::Custom(_)) => *m.entry("read_error.custom".into()).or_insert(0) += 1,
                REv::Fail(ErrSpec::Simple(k)) => {
                    *m.entry(format!("read_error.{}", if SPECIAL_KINDS.contains(&k.as_str()) { k.as_str() } else { "other_kinds" })).or_insert(0) += 1
                }
                REv::Eof => *m.entry("early_eof".into()).or_insert(0) += 1,
                REv::Reenter(_) => *m.entry("reentrant_reader".into()).or_insert(0) += 1,
                REv::Panic => *m.entry("reader_panic".into()).or_insert(0) += 1,
                REv::Deliver(_) => {}
            }
        }
    };
    let mut cur_len: u64 = 0;
    for op in ops {
        match op {
            Op::Stream { script, .. } => count_script(&mut m, script),
            Op::File { spec } => {
                if let Ok(mm) = &spec.meta {
                    if *mm != cur_len {
                        *m.entry("metadata_mismatch".into()).or_insert(0) += 1;
                    }
                }
                if spec.open.is_err() {
                    *m.entry("open_error".into()).or_insert(0) += 1;
                }
                if spec.meta.is_err() {
                    *m.entry("metadata_error".into()).or_insert(0) += 1;
                }
                count_script(&mut m, &spec.script);
            }
            Op::Data(b) => cur_len = b.len() as u64,
            Op::Real { kind } => *m.entry(format!("real_fs.{}", kind.name())).or_insert(0) += 1,
        }
    }
    m.into_iter().collect()
}
